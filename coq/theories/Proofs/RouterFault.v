(* Proofs/RouterFault.v -- the restart of dnsmasq at the end of setupDNSMasq fails (edgeos, ubios,
   firewalla: the drop-in file is written, nothing is restarted, Setup returns the error, run.go
   logs it and goes on).  The Restore of the stop that follows still undoes everything: the file is
   gone, dnsmasq is restarted, and neither what it runs with nor what is on disk points at the
   proxy.  The variant that skips Restore unless Setup had succeeded (seeded change C20g) is
   refuted: the drop-in stays on disk and the next restart of dnsmasq -- anybody's -- loads it. *)
From NX Require Import Bytes Router RouterFacts RouterDisk.
Open Scope Z_scope.

Definition file_setup_fault (lines : list bytes) (e : env) : env := set_conf e (Some (unlines lines)).

Theorem fault_then_restore : forall r e lines,
  match r_fw r with Edgeos | Ubios | Firewalla => True | _ => False end ->
  exists e3, restore r (file_setup_fault lines e) = (e3, true) /\ conf e3 = None /\
    loaded e3 = current e3 /\
    c20_not_pointing (view (r_fw r) (loaded e3)) = true /\
    c20_not_pointing (view (r_fw r) (current e3)) = true.
Proof.
  intros r e lines Hf. unfold restore, file_setup_fault.
  destruct (r_fw r) eqn:F; try contradiction; cbn [conf set_conf];
    (eexists; split; [reflexivity|]; split; [reflexivity|]; split; [reflexivity|]; split; reflexivity).
Qed.

(* Restore guarded by "Setup succeeded" *)
Definition restore_guarded (installed : bool) (r : robj) (e : env) : env * bool :=
  if installed then restore r e else (e, true).

Definition env0 : env := mkEnv None None [] [] [] true false (mkSnap None [] []) 0.

Example guarded_restore_refuted :
  let r := new Edgeos env0 in
  let e2 := file_setup_fault (dropin_lines false true false) env0 in
  let e3 := fst (restore_guarded false r e2) in
  c20_not_pointing (view Edgeos (loaded e3)) = true /\      (* the running dnsmasq never saw the file ... *)
  c20_not_pointing (view Edgeos (current e3)) = false /\    (* ... but the next restart will *)
  c20_not_pointing (view Edgeos (current (fst (restore r e2)))) = true.
Proof. vm_compute. repeat split. Qed.
