(* Proofs/ManagerFacts.v -- elections pick the first healthy candidate in order;
   OnChange fires exactly on a change; the active endpoint is always the init
   endpoint or one offered in the last successful election; the testing latch
   admits one background election per endpoint object. *)
From NX Require Import Bytes Manager.
From Coq Require Import ZifyBool.
Open Scope Z_scope.

Definition is_ok (h : list (ep * probe)) (e : ep) : bool :=
  match probe_of h e with ProbeOk => true | _ => false end.
Definition not_unreach (h : list (ep * probe)) (e : ep) : bool :=
  match probe_of h e with ProbeUnreach => false | _ => true end.

(* ---------- one provider's endpoints ---------- *)
Lemma try_eps_spec h eps evs :
  forallb (not_unreach h) eps = true ->
  fst (try_eps h eps evs) = match find (is_ok h) eps with Some e => Some (Some e) | None => None end.
Proof.
  revert evs; induction eps as [|e r IH]; intros evs H; cbn [try_eps find]; [reflexivity|].
  cbn [forallb] in H. apply andb_true_iff in H as [He Hr].
  unfold is_ok, not_unreach in *. destruct (probe_of h e); cbn [fst]; try reflexivity; try discriminate.
  apply IH; exact Hr.
Qed.

(* the probes performed, in order *)
Definition probes (evs : list event) : list ep :=
  flat_map (fun ev => match ev with EvProbe e => [e] | _ => [] end) evs.

Fixpoint until_ok (h : list (ep * probe)) (eps : list ep) : list ep :=
  match eps with [] => [] | e :: r => if is_ok h e then [e] else e :: until_ok h r end.

Lemma probes_app a b : probes (a ++ b) = probes a ++ probes b.
Proof. unfold probes. apply flat_map_app. Qed.

Lemma try_eps_probes h eps evs :
  forallb (not_unreach h) eps = true ->
  probes (snd (try_eps h eps evs)) = probes evs ++ until_ok h eps.
Proof.
  revert evs; induction eps as [|e r IH]; intros evs H; cbn [try_eps until_ok snd]; [rewrite app_nil_r; reflexivity|].
  cbn [forallb] in H. apply andb_true_iff in H as [He Hr].
  unfold is_ok, not_unreach in *. destruct (probe_of h e) eqn:Ep; cbn [snd]; try discriminate.
  - rewrite probes_app. reflexivity.
  - rewrite IH by exact Hr. rewrite probes_app. cbn. rewrite <- app_assoc. reflexivity.
Qed.

(* ---------- the whole election ---------- *)
Definition prov_ok (h : list (ep * probe)) (p : presult) : bool :=
  match p with PFail PUnreach => false | PFail PPlain => true | PEps l => forallb (not_unreach h) l end.

Lemma find_first_app {A} (f : A -> bool) a b :
  find f (a ++ b) = match find f a with Some x => Some x | None => find f b end.
Proof. induction a as [|x a IH]; cbn [app find]; [reflexivity|]. destruct (f x); [reflexivity|exact IH]. Qed.

Lemma find_best_go_spec h ps j first seen evs :
  forallb (prov_ok h) ps = true ->
  fst (fst (find_best_go h ps j first seen evs)) =
    match find (is_ok h) (all_eps ps) with
    | Some e => BOk e
    | None => match first with
              | Some f => BFallback f
              | None => match all_eps ps with e :: _ => BFallback e | [] => BNone end
              end
    end.
Proof.
  revert j first seen evs; induction ps as [|p r IH]; intros j first seen evs H; cbn [find_best_go all_eps find fst].
  - destruct first; reflexivity.
  - cbn [forallb] in H. apply andb_true_iff in H as [Hp Hr].
    destruct p as [eps|[|]]; cbn [prov_ok] in Hp; try discriminate.
    + pose proof (try_eps_spec h eps evs Hp) as Ht.
      destruct (try_eps h eps evs) as [[[e|]|] evs'] eqn:Et; cbn [fst] in Ht.
      * rewrite find_first_app. destruct (find (is_ok h) eps); inversion Ht; subst. reflexivity.
      * destruct (find (is_ok h) eps); discriminate.
      * rewrite find_first_app. destruct (find (is_ok h) eps) eqn:Ef; [discriminate|].
        rewrite IH by exact Hr.
        destruct (find (is_ok h) (all_eps r)); [reflexivity|].
        destruct first as [f|]; [reflexivity|].
        destruct eps as [|e0 eps']; cbn [hd_error app]; reflexivity.
    + apply IH; exact Hr.
Qed.

Theorem find_best_correct en :
  forallb (prov_ok (health en)) (provs en) = true ->
  fst (fst (find_best en)) = spec_best en.
Proof.
  intros H. unfold find_best, spec_best. rewrite find_best_go_spec by exact H.
  fold (is_ok (health en)). destruct (find _ _); reflexivity.
Qed.

(* probes happen strictly in provider-then-endpoint order and stop at the first
   that succeeds *)
Lemma until_ok_app_some h eps r e : find (is_ok h) eps = Some e -> until_ok h (eps ++ r) = until_ok h eps.
Proof.
  induction eps as [|x eps IH]; cbn [find app until_ok]; [discriminate|].
  destruct (is_ok h x); [reflexivity|]. intros H. f_equal. apply IH. exact H.
Qed.
Lemma until_ok_app_none h eps r : find (is_ok h) eps = None -> until_ok h (eps ++ r) = until_ok h eps ++ until_ok h r.
Proof.
  induction eps as [|x eps IH]; cbn [find app until_ok]; [reflexivity|].
  destruct (is_ok h x); [discriminate|]. intros H. cbn [app]. f_equal. apply IH. exact H.
Qed.

Lemma find_best_go_probes h ps j first seen evs :
  forallb (prov_ok h) ps = true ->
  probes (snd (find_best_go h ps j first seen evs)) = probes evs ++ until_ok h (all_eps ps).
Proof.
  revert j first seen evs; induction ps as [|p r IH]; intros j first seen evs H; cbn [find_best_go all_eps snd].
  - destruct first; cbn [snd until_ok]; rewrite app_nil_r; reflexivity.
  - cbn [forallb] in H. apply andb_true_iff in H as [Hp Hr].
    destruct p as [eps|[|]]; cbn [prov_ok] in Hp; try discriminate.
    + pose proof (try_eps_probes h eps evs Hp) as Hpr. pose proof (try_eps_spec h eps evs Hp) as Ht.
      destruct (try_eps h eps evs) as [[[e|]|] evs'] eqn:Et; cbn [fst snd] in *.
      * rewrite Hpr. f_equal. destruct (find (is_ok h) eps) as [e'|] eqn:Ef; [|discriminate].
        symmetry. eapply until_ok_app_some; exact Ef.
      * destruct (find (is_ok h) eps); discriminate.
      * rewrite IH by exact Hr. rewrite Hpr, <- app_assoc. f_equal.
        destruct (find (is_ok h) eps) as [e'|] eqn:Ef; [discriminate|].
        symmetry. apply until_ok_app_none; exact Ef.
    + rewrite IH by exact Hr. rewrite probes_app. cbn. rewrite app_nil_r. reflexivity.
Qed.

Theorem election_probe_order en :
  forallb (prov_ok (health en)) (provs en) = true ->
  probes (snd (find_best en)) = until_ok (health en) (all_eps (provs en)).
Proof. intros H. unfold find_best. rewrite find_best_go_probes by exact H. reflexivity. Qed.

(* the elected endpoint was offered in this election *)
Lemma find_best_go_seen h ps j first seen evs :
  (forall f, first = Some f -> In f seen) ->
  match fst (fst (find_best_go h ps j first seen evs)) with
  | BOk e | BFallback e => In e (snd (fst (find_best_go h ps j first seen evs)))
  | _ => True
  end.
Proof.
  revert j first seen evs; induction ps as [|p r IH]; intros j first seen evs Hf; cbn [find_best_go].
  - destruct first as [f|]; cbn [fst snd]; [apply Hf; reflexivity | exact I].
  - destruct p as [eps|[|]]; [|apply IH; exact Hf | cbn; exact I].
    destruct (try_eps h eps evs) as [[[e|]|] evs'] eqn:Et; cbn [fst snd].
    + apply in_or_app. right.
      clear -Et. revert evs Et. induction eps as [|x eps IH]; intros evs Et; cbn [try_eps] in Et; [discriminate|].
      destruct (probe_of h x).
      * inversion Et; subst. left; reflexivity.
      * right. eapply IH; eassumption.
      * discriminate.
    + exact I.
    + apply IH. intros f Hff. destruct first as [f0|]; [inversion Hff; subst; apply in_or_app; left; apply Hf; reflexivity|].
      destruct eps as [|e0 eps']; cbn [hd_error] in Hff; [discriminate|]. inversion Hff; subst.
      apply in_or_app. right. left. reflexivity.
Qed.

Theorem elected_was_offered en :
  match fst (fst (find_best en)) with
  | BOk e | BFallback e => In e (snd (fst (find_best en)))
  | _ => True
  end.
Proof. unfold find_best. apply find_best_go_seen. intros f Hf; discriminate. Qed.

(* ---------- testLocked: OnChange exactly on a change ---------- *)
Definition changes (evs : list event) : list ep :=
  flat_map (fun ev => match ev with EvChange e => [e] | _ => [] end) evs.
Lemma changes_app a b : changes (a ++ b) = changes a ++ changes b.
Proof. unfold changes. apply flat_map_app. Qed.

Definition active_ep (s : mstate) : option ep :=
  match active s with Some i => Some (a_ep (get_obj s i)) | None => None end.

Lemma changes_find_best_go h ps j first seen evs :
  changes (snd (find_best_go h ps j first seen evs)) = changes evs.
Proof.
  revert j first seen evs; induction ps as [|p r IH]; intros j first seen evs; cbn [find_best_go].
  - destruct first; reflexivity.
  - destruct p as [eps|[|]].
    + assert (Ht : forall evs0, changes (snd (try_eps h eps evs0)) = changes evs0).
      { induction eps as [|x eps IHe]; intros evs0; cbn [try_eps]; [reflexivity|].
        destruct (probe_of h x); cbn [snd]; rewrite ?IHe, ?changes_app; cbn; rewrite ?app_nil_r; reflexivity. }
      specialize (Ht evs). destruct (try_eps h eps evs) as [[[e|]|] evs'] eqn:Et; cbn [snd] in *; try exact Ht.
      rewrite IH. exact Ht.
    + rewrite IH, changes_app. cbn. apply app_nil_r.
    + reflexivity.
Qed.

(* ---------- object store ---------- *)
Lemma upd_nth_length {A} i (x : A) l : length (upd_nth i x l) = length l.
Proof. revert i; induction l as [|h t IH]; intros [|i]; cbn [upd_nth length]; try reflexivity. rewrite IH; reflexivity. Qed.

Lemma nth_upd_nth {A} i j (x d : A) l :
  nth j (upd_nth i x l) d = if Nat.eqb i j && Nat.ltb i (length l) then x else nth j l d.
Proof.
  revert i j; induction l as [|h t IH]; intros i j; cbn [upd_nth length].
  - destruct i, j; cbn; try reflexivity. rewrite andb_false_r. reflexivity.
  - destruct i as [|i], j as [|j]; cbn [nth upd_nth]; try reflexivity.
    rewrite IH. cbn [Nat.eqb]. replace (Nat.ltb (S i) (S (length t))) with (Nat.ltb i (length t)); [reflexivity|].
    destruct (Nat.ltb_spec i (length t)), (Nat.ltb_spec (S i) (S (length t))); try reflexivity; lia.
Qed.

Lemma get_set_obj s i a j :
  get_obj (set_obj s i a) j = if Nat.eqb i j && Nat.ltb i (length (objs s)) then a else get_obj s j.
Proof. unfold get_obj, set_obj; cbn [objs]. apply nth_upd_nth. Qed.

Lemma get_obj_app s extra j : (j < length (objs s))%nat ->
  nth j (objs s ++ extra) (mkAe 0 0 0 false 0) = get_obj s j.
Proof. intros H. unfold get_obj. apply app_nth1. exact H. Qed.

(* ---------- the invariant ---------- *)
Definition member_ok (c : mcfg) (s : mstate) : Prop :=
  forall i, active s = Some i ->
    (i < length (objs s))%nat /\
    (Some (a_ep (get_obj s i)) = init_ep c \/ In (a_ep (get_obj s i)) (offered s)).
Definition latch_ok (s : mstate) : Prop :=
  NoDup (pending s) /\
  (forall i, In i (pending s) <-> (i < length (objs s))%nat /\ a_testing (get_obj s i) = true).
Definition minv (c : mcfg) (s : mstate) : Prop := member_ok c s /\ latch_ok s.

Lemma minv_m0 c : minv c m0.
Proof.
  split; [intros i H; discriminate|]. split; [constructor|].
  intros i; split; [intros [] | intros [H _]; cbn in H; lia].
Qed.

(* a state transformer that only touches objects in ways irrelevant to both
   invariants: keeps length or extends with non-testing objects, keeps every old
   object's endpoint and testing flag, keeps active/pending/offered *)
Definition frame (s s' : mstate) : Prop :=
  (length (objs s) <= length (objs s'))%nat /\
  (forall j, (j < length (objs s))%nat ->
     a_ep (get_obj s' j) = a_ep (get_obj s j) /\ a_testing (get_obj s' j) = a_testing (get_obj s j)) /\
  (forall j, (length (objs s) <= j < length (objs s'))%nat -> a_testing (get_obj s' j) = false) /\
  pending s' = pending s.

Ltac frame_split := refine (conj _ (conj _ (conj _ _))).

Lemma frame_refl s : frame s s.
Proof. frame_split; [lia | intros j Hj; split; reflexivity | intros j Hj; lia | reflexivity]. Qed.

Lemma frame_trans a b c0 : frame a b -> frame b c0 -> frame a c0.
Proof.
  intros (L1 & O1 & N1 & P1) (L2 & O2 & N2 & P2). frame_split.
  - lia.
  - intros j Hj. destruct (O2 j) as [E Et]; [lia|]. destruct (O1 j Hj) as [E1 Et1]. split; congruence.
  - intros j Hj. destruct (Nat.lt_ge_cases j (length (objs b))) as [Hlt|Hge].
    + destruct (O2 j Hlt) as [_ E]. rewrite E. apply N1. lia.
    + apply N2. lia.
  - congruence.
Qed.

Lemma frame_latch s s' : frame s s' -> latch_ok s -> latch_ok s'.
Proof.
  intros (L & O & N & P) (Hnd & Hiff). split; [rewrite P; exact Hnd|].
  intros i. rewrite P. rewrite Hiff. split.
  - intros [Hi Ht]. split; [lia|]. destruct (O i Hi) as [_ E]. congruence.
  - intros [Hi Ht]. destruct (Nat.lt_ge_cases i (length (objs s))) as [Hlt|Hge].
    + split; [exact Hlt|]. destruct (O i Hlt) as [_ E]. congruence.
    + rewrite N in Ht by lia. discriminate.
Qed.

Lemma add_log_frame s evs : frame s (add_log s evs).
Proof. unfold add_log. frame_split; cbn [objs pending]; [lia | intros j Hj; split; reflexivity | intros j Hj; lia | reflexivity]. Qed.

Lemma new_active_spec c en s e s' i :
  new_active c en s e = (s', i) -> member_ok c s ->
  frame s s' /\ (i < length (objs s'))%nat /\ a_ep (get_obj s' i) = e /\
  active s' = active s /\ offered s' = offered s /\ evlog s' = evlog s.
Proof.
  unfold new_active. intros H Hm.
  assert (Hnew : forall act, (mkM (objs s ++ [mkAe e (now en) (interval_of c e) false 0]) act (pending s) (offered s) (evlog s), length (objs s)) = (s', i) ->
                 frame s s' /\ (i < length (objs s'))%nat /\ a_ep (get_obj s' i) = e /\ active s' = act /\ offered s' = offered s /\ evlog s' = evlog s).
  { intros act E. inversion E; subst. cbn [objs active pending offered evlog].
    refine (conj _ (conj _ (conj _ (conj _ (conj _ _))))); try reflexivity.
    - frame_split; cbn [objs pending]; try reflexivity.
      + rewrite app_length; cbn; lia.
      + intros j Hj. unfold get_obj at 1 3; cbn [objs]. rewrite app_nth1 by exact Hj. split; reflexivity.
      + intros j Hj. rewrite app_length in Hj; cbn in Hj. assert (j = length (objs s)) by lia. subst j.
        unfold get_obj; cbn [objs]. rewrite app_nth2 by lia. rewrite Nat.sub_diag. reflexivity.
    - rewrite app_length; cbn; lia.
    - unfold get_obj; cbn [objs]. rewrite app_nth2 by lia. rewrite Nat.sub_diag. reflexivity. }
  destruct (active s) as [k|] eqn:Ea.
  - destruct (a_ep (get_obj s k) =? e) eqn:Ee.
    + injection H as <- <-. destruct (Hm k Ea) as [Hk _]. clear Hnew.
      split; [apply frame_refl|]. split; [exact Hk|]. split; [lia|]. auto.
    + apply Hnew in H. exact H.
  - apply Hnew in H. exact H.
Qed.

Lemma set_obj_frame s i a :
  a_ep a = a_ep (get_obj s i) -> a_testing a = a_testing (get_obj s i) -> frame s (set_obj s i a).
Proof.
  intros He Ht. frame_split; cbn [set_obj objs pending].
  - rewrite upd_nth_length. lia.
  - intros j Hj. rewrite get_set_obj.
    destruct (Nat.eqb i j && Nat.ltb i (length (objs s))) eqn:E; [|split; reflexivity].
    apply andb_true_iff in E as [E _]. apply Nat.eqb_eq in E. subst j. split; assumption.
  - intros j Hj. rewrite upd_nth_length in Hj. lia.
  - reflexivity.
Qed.

Lemma member_frame c s s' :
  frame s s' -> active s' = active s -> offered s' = offered s -> member_ok c s -> member_ok c s'.
Proof.
  intros (L & O & _ & _) Ha Ho Hm i Hi. rewrite Ha in Hi. destruct (Hm i Hi) as [Hlt Hin].
  destruct (O i Hlt) as [E _]. split; [lia|]. rewrite E, Ho. exact Hin.
Qed.

Lemma test_locked_spec c en s s' okb :
  test_locked c en s = (s', okb) -> member_ok c s ->
  frame s s' /\ member_ok c s' /\ (okb = false -> active s' = active s /\ offered s' = offered s).
Proof.
  unfold test_locked. pose proof (elected_was_offered en) as Hoff.
  destruct (find_best en) as [[b seen] evs]. cbn [fst snd] in Hoff.
  intros H Hm.
  assert (F0 : frame s (add_log s evs)) by apply add_log_frame.
  assert (M0 : member_ok c (add_log s evs)) by (eapply member_frame; [exact F0 | reflexivity | reflexivity | exact Hm]).
  assert (Hfail : (add_log s evs, false) = (s', okb) ->
          frame s s' /\ member_ok c s' /\ (okb = false -> active s' = active s /\ offered s' = offered s)).
  { intros E; inversion E; subst. split; [exact F0|]. split; [exact M0|]. intros _. split; reflexivity. }
  destruct b as [e|e| |]; try (apply Hfail; exact H).
  - (* BOk *)
    destruct (new_active c en (add_log s evs) e) as [s1 i] eqn:En.
    destruct (new_active_spec _ _ _ _ _ _ En M0) as (F1 & Hi & Hep & Ha1 & Ho1 & _).
    set (changed := match active s1 with Some k => negb (a_ep (get_obj s1 k) =? e) | None => true end) in H.
    destruct changed eqn:Ec; inversion H; subst s' okb; clear H.
    + split; [|split; [|discriminate]].
      * eapply frame_trans; [exact F0|]. eapply frame_trans; [exact F1|].
        frame_split; cbn [objs pending]; [lia | intros j Hj; split; reflexivity | intros j Hj; lia | reflexivity].
      * intros k Hk. cbn [active] in Hk. inversion Hk; subst k. cbn [objs offered]. split; [exact Hi|].
        right. unfold get_obj in *; cbn [objs]. rewrite Hep. exact Hoff.
    + split; [|split; [|discriminate]].
      * eapply frame_trans; [exact F0|]. eapply frame_trans; [exact F1|].
        frame_split; cbn [objs pending]; [lia | intros j Hj; split; reflexivity | intros j Hj; lia | reflexivity].
      * intros k Hk. cbn [active] in Hk. unfold changed in Ec. rewrite Hk in Ec.
        apply negb_false_iff in Ec. apply Z.eqb_eq in Ec.
        assert (Hk0 : active (add_log s evs) = Some k) by (rewrite <- Ha1; exact Hk).
        destruct (M0 k Hk0) as [Hlt _]. destruct F1 as (L1 & O1 & _ & _).
        cbn [objs offered]. split; [lia|]. right. unfold get_obj in *; cbn [objs]. rewrite Ec. exact Hoff.
  - (* BFallback *)
    destruct (new_active c en (add_log s evs) e) as [s1 i] eqn:En.
    destruct (new_active_spec _ _ _ _ _ _ En M0) as (F1 & Hi & Hep & Ha1 & Ho1 & _).
    remember (set_obj s1 i (mkAe (a_ep (get_obj s1 i)) (a_last (get_obj s1 i)) failed_interval
                                 (a_testing (get_obj s1 i)) (a_errs (get_obj s1 i)))) as s2 eqn:Hs2.
    assert (F2 : frame s1 s2) by (subst s2; apply set_obj_frame; reflexivity).
    assert (Hep2 : a_ep (get_obj s2 i) = e).
    { subst s2. rewrite get_set_obj. destruct (Nat.eqb i i && Nat.ltb i (length (objs s1))); [exact Hep | exact Hep]. }
    assert (Hlen2 : length (objs s2) = length (objs s1)) by (subst s2; cbn [set_obj objs]; apply upd_nth_length).
    assert (Ha2 : active s2 = active s1) by (subst s2; reflexivity).
    clear Hs2.
    set (changed := match active s2 with Some k => negb (a_ep (get_obj s2 k) =? e) | None => true end) in H.
    destruct changed eqn:Ec; inversion H; subst s' okb; clear H.
    + split; [|split; [|discriminate]].
      * eapply frame_trans; [exact F0|]. eapply frame_trans; [exact F1|]. eapply frame_trans; [exact F2|].
        frame_split; cbn [objs pending]; [lia | intros j Hj; split; reflexivity | intros j Hj; lia | reflexivity].
      * intros k Hk. cbn [active] in Hk. inversion Hk; subst k. cbn [objs offered]. split; [lia|].
        right. unfold get_obj in *; cbn [objs]. rewrite Hep2. exact Hoff.
    + split; [|split; [|discriminate]].
      * eapply frame_trans; [exact F0|]. eapply frame_trans; [exact F1|]. eapply frame_trans; [exact F2|].
        frame_split; cbn [objs pending]; [lia | intros j Hj; split; reflexivity | intros j Hj; lia | reflexivity].
      * intros k Hk. cbn [active] in Hk. unfold changed in Ec. rewrite Hk in Ec.
        apply negb_false_iff in Ec. apply Z.eqb_eq in Ec.
        assert (Hk0 : active (add_log s evs) = Some k) by (rewrite <- Ha1, <- Ha2; exact Hk).
        destruct (M0 k Hk0) as [Hlt _]. destruct F1 as (L1 & O1 & _ & _).
        cbn [objs offered]. split; [lia|]. right. unfold get_obj in *; cbn [objs]. rewrite Ec. exact Hoff.
Qed.

Lemma NoDup_app_intro_single {A} (l : list A) x : NoDup l -> ~ In x l -> NoDup (l ++ [x]).
Proof.
  induction l as [|y l IH]; intros Hnd Hx; cbn [app]; [constructor; [intros []|constructor]|].
  inversion Hnd as [|? ? Hy Hl]; subst. constructor.
  - rewrite in_app_iff. intros [H|[H|[]]]; [exact (Hy H) | subst; apply Hx; left; reflexivity].
  - apply IH; [exact Hl | intros H; apply Hx; right; exact H].
Qed.

(* test(): the latch admits at most one pending election per object *)
Lemma get_obj_same_objs s s' j : objs s = objs s' -> get_obj s j = get_obj s' j.
Proof. unfold get_obj. intros ->. reflexivity. Qed.

Lemma spawn_spec c s i :
  (i < length (objs s))%nat -> minv c s -> minv c (spawn s i).
Proof.
  intros Hi (Hm & Hnd & Hiff). unfold spawn.
  destruct (a_testing (get_obj s i)) eqn:Et; [split; [exact Hm | split; assumption]|].
  remember (set_obj s i (mkAe (a_ep (get_obj s i)) (a_last (get_obj s i)) (a_interval (get_obj s i)) true (a_errs (get_obj s i)))) as s1 eqn:Hs1.
  assert (Hlen : length (objs s1) = length (objs s)) by (subst s1; cbn [set_obj objs]; apply upd_nth_length).
  assert (Hget : forall j, get_obj s1 j = if Nat.eqb i j then mkAe (a_ep (get_obj s i)) (a_last (get_obj s i)) (a_interval (get_obj s i)) true (a_errs (get_obj s i)) else get_obj s j).
  { intros j. subst s1. rewrite get_set_obj. assert (Nat.ltb i (length (objs s)) = true) as -> by (apply Nat.ltb_lt; exact Hi).
    rewrite andb_true_r. reflexivity. }
  assert (Ha : active s1 = active s) by (subst s1; reflexivity).
  assert (Ho : offered s1 = offered s) by (subst s1; reflexivity).
  assert (Hp : pending s1 = pending s) by (subst s1; reflexivity).
  clear Hs1.
  set (s2 := mkM (objs s1) (active s1) (pending s1 ++ [i]) (offered s1) (evlog s1)).
  assert (Hg2 : forall j, get_obj s2 j = get_obj s1 j) by (intros j; apply get_obj_same_objs; reflexivity).
  split.
  - intros k Hk. cbn [active s2] in Hk. rewrite Ha in Hk. destruct (Hm k Hk) as [Hlt Hin].
    cbn [objs offered s2]. rewrite Hlen, Ho. split; [exact Hlt|].
    rewrite Hg2, Hget. destruct (Nat.eqb_spec i k) as [->|Hne]; [exact Hin | exact Hin].
  - split; cbn [pending s2 objs]; rewrite Hp.
    + apply NoDup_app_intro_single; [exact Hnd|]. intros Hin. apply Hiff in Hin as [_ Ht']. congruence.
    + intros j. rewrite in_app_iff, Hlen, Hg2, Hget, Hiff. cbn [In].
      destruct (Nat.eqb_spec i j) as [->|Hne]; cbn [a_testing].
      * split; [intros _; split; [exact Hi | reflexivity] | intros _; right; left; reflexivity].
      * split; [intros [H|[H|[]]]; [exact H | congruence] | intros H; left; exact H].
Qed.

Definition label_ok (s : mstate) (l : label) : Prop :=
  match l with QEnd _ i _ => (i < length (objs s))%nat | _ => True end.

Lemma minv_frame c s s' :
  frame s s' -> active s' = active s -> offered s' = offered s -> minv c s -> minv c s'.
Proof. intros F Ha Ho (Hm & Hl). split; [eapply member_frame; eassumption | eapply frame_latch; eassumption]. Qed.

Lemma test_locked_minv c en s s' okb : test_locked c en s = (s', okb) -> minv c s -> minv c s'.
Proof.
  intros H (Hm & Hl). destruct (test_locked_spec _ _ _ _ _ H Hm) as (F & Hm' & _).
  split; [exact Hm' | eapply frame_latch; eassumption].
Qed.

Lemma minv_set_errs c s i a :
  a_ep a = a_ep (get_obj s i) -> a_testing a = a_testing (get_obj s i) -> minv c s -> minv c (set_obj s i a).
Proof. intros He Ht. apply minv_frame; [apply set_obj_frame; assumption | reflexivity | reflexivity]. Qed.

Theorem mstep_inv c en s l :
  minv c s -> label_ok s l -> minv c (snd (fst (mstep c en s l))).
Proof.
  intros Hinv Hl. destruct l as [q|q i ok| | |dt|e p|ps]; cbn [mstep].
  - (* QStart *)
    set (boot := match active s with Some _ => (s, true) | None => _ end).
    assert (Hb : minv c (fst boot)).
    { unfold boot. destruct (active s) as [k|] eqn:Ea; [exact Hinv|].
      destruct (init_ep c) as [e0|] eqn:Ei.
      - destruct (new_active c en s e0) as [s' i] eqn:En.
        destruct (new_active_spec _ _ _ _ _ _ En (proj1 Hinv)) as (F1 & Hi & Hep & Ha1 & Ho1 & _).
        remember (set_obj s' i (mkAe (a_ep (get_obj s' i)) 0 (a_interval (get_obj s' i)) (a_testing (get_obj s' i)) (a_errs (get_obj s' i)))) as s'' eqn:Hs''.
        assert (F2 : frame s' s'') by (subst s''; apply set_obj_frame; reflexivity).
        assert (Hlen : length (objs s'') = length (objs s')) by (subst s''; cbn [set_obj objs]; apply upd_nth_length).
        assert (Hep2 : a_ep (get_obj s'' i) = e0).
        { subst s''. rewrite get_set_obj. destruct (Nat.eqb i i && Nat.ltb i (length (objs s'))); exact Hep. }
        cbn [fst]. split.
        + intros k Hk. cbn [active] in Hk. inversion Hk; subst k. cbn [objs offered]. split; [lia|].
          left. rewrite (get_obj_same_objs _ s'' i) by reflexivity. rewrite Hep2. symmetry. exact Ei.
        + assert (Hl2 : latch_ok s'') by (eapply frame_latch; [exact F2|]; eapply frame_latch; [exact F1 | exact (proj2 Hinv)]).
          destruct Hl2 as (Hnd & Hiff). split; [exact Hnd|]. intros j. cbn [pending objs].
          rewrite (get_obj_same_objs _ s'' j) by reflexivity. apply Hiff.
      - destruct (test_locked c en s) as [s' okb] eqn:Et. cbn [fst]. eapply test_locked_minv; eassumption. }
    destruct boot as [s1 okb]. cbn [fst] in Hb.
    destruct (active s1) as [i|] eqn:Ea1; [|cbn [fst snd]; eapply minv_frame; [apply add_log_frame | reflexivity | reflexivity | exact Hb]].
    destruct okb; [|cbn [fst snd]; eapply minv_frame; [apply add_log_frame | reflexivity | reflexivity | exact Hb]].
    cbn [fst snd]. eapply minv_frame; [apply add_log_frame | reflexivity | reflexivity |].
    destruct (proj1 Hb i Ea1) as [Hi _].
    destruct (negb (a_testing (get_obj s1 i)) && _); [|exact Hb].
    apply spawn_spec.
    + cbn [set_obj objs]. rewrite upd_nth_length. exact Hi.
    + apply minv_set_errs; [reflexivity | reflexivity | exact Hb].
  - (* QEnd *)
    cbn [label_ok] in Hl. destruct ok; cbn [fst snd].
    + apply minv_set_errs; [reflexivity | reflexivity | exact Hinv].
    + set (s1 := set_obj s i _).
      assert (H1 : minv c s1) by (apply minv_set_errs; [reflexivity | reflexivity | exact Hinv]).
      destruct (_ =? eff_threshold c); [|exact H1].
      apply spawn_spec; [unfold s1; cbn [set_obj objs]; rewrite upd_nth_length; exact Hl | exact H1].
  - (* Elect *)
    destruct (pending s) as [|i rest] eqn:Ep; [exact Hinv|].
    destruct Hinv as (Hm & Hnd & Hiff).
    set (s0 := mkM (objs s) (active s) rest (offered s) (evlog s)).
    assert (Hm0 : member_ok c s0) by (intros k Hk; exact (Hm k Hk)).
    destruct (test_locked c en s0) as [s1 okb] eqn:Et.
    destruct (test_locked_spec _ _ _ _ _ Et Hm0) as (F & Hm1 & _).
    destruct F as (L & O & N & P).
    assert (Hi : (i < length (objs s))%nat /\ a_testing (get_obj s i) = true) by (apply Hiff; rewrite Ep; left; reflexivity).
    destruct Hi as [Hi Hti].
    assert (Hnd' : NoDup rest /\ ~ In i rest) by (rewrite Ep in Hnd; inversion Hnd; auto).
    destruct Hnd' as [Hndr Hnotin].
    assert (Ht1 : a_testing (get_obj s1 i) = true).
    { destruct (O i Hi) as [_ E]. rewrite E. exact Hti. }
    rewrite Ht1. cbn [fst snd].
    remember (set_obj s1 i (mkAe (a_ep (get_obj s1 i)) (if okb then now en else a_last (get_obj s1 i)) (a_interval (get_obj s1 i)) false (a_errs (get_obj s1 i)))) as s2 eqn:Hs2.
    assert (Hlen2 : length (objs s2) = length (objs s1)) by (subst s2; cbn [set_obj objs]; apply upd_nth_length).
    assert (Hget2 : forall j, get_obj s2 j = if Nat.eqb i j then mkAe (a_ep (get_obj s1 i)) (if okb then now en else a_last (get_obj s1 i)) (a_interval (get_obj s1 i)) false (a_errs (get_obj s1 i)) else get_obj s1 j).
    { intros j. subst s2. rewrite get_set_obj.
      assert (Nat.ltb i (length (objs s1)) = true) as -> by (apply Nat.ltb_lt; cbn [objs s0] in L; lia).
      rewrite andb_true_r. reflexivity. }
    assert (Ha2 : active s2 = active s1) by (subst s2; reflexivity).
    assert (Ho2 : offered s2 = offered s1) by (subst s2; reflexivity).
    assert (Hp2 : pending s2 = rest) by (subst s2; cbn [set_obj pending]; exact P).
    clear Hs2. split.
    + intros k Hk. rewrite Ha2 in Hk. destruct (Hm1 k Hk) as [Hlt Hin]. rewrite Hlen2, Ho2. split; [exact Hlt|].
      rewrite Hget2. destruct (Nat.eqb_spec i k) as [->|Hne]; exact Hin.
    + split; [rewrite Hp2; exact Hndr|]. intros j. rewrite Hp2, Hlen2, Hget2.
      destruct (Nat.eqb_spec i j) as [->|Hne]; cbn [a_testing].
      * split; [intros Hin; contradiction | intros [_ Hf]; discriminate].
      * split.
        -- intros Hin. assert (Hin' : In j (pending s)) by (rewrite Ep; right; exact Hin).
           apply Hiff in Hin' as [Hj Htj]. cbn [objs s0] in L. split; [lia|]. destruct (O j Hj) as [_ E]. rewrite E. exact Htj.
        -- intros [Hj Htj]. destruct (Nat.lt_ge_cases j (length (objs s))) as [Hlt|Hge].
           ++ destruct (O j Hlt) as [_ E]. rewrite E in Htj.
              assert (Hin' : In j (pending s)) by (apply Hiff; split; assumption).
              rewrite Ep in Hin'. destruct Hin' as [Heq|Hin']; [congruence | exact Hin'].
           ++ rewrite N in Htj by (cbn [objs s0]; lia). discriminate.
  - (* ForceTest *)
    destruct (test_locked c en s) as [s1 okb] eqn:Et. cbn [fst snd]. eapply test_locked_minv; eassumption.
  - exact Hinv.
  - exact Hinv.
  - exact Hinv.
Qed.

(* every reachable state (any script of well-formed labels) satisfies the invariant *)
Inductive mreach (c : mcfg) : env -> mstate -> Prop :=
| mreach0 en : mreach c en m0
| mreach_step en s l : mreach c en s -> label_ok s l ->
    mreach c (fst (fst (mstep c en s l))) (snd (fst (mstep c en s l))).

Theorem reachable_inv c en s : mreach c en s -> minv c s.
Proof. induction 1; [apply minv_m0 | apply mstep_inv; assumption]. Qed.

(* C08: the active endpoint is the init endpoint or was offered in the most recent
   successful election *)
Theorem active_is_offered c en s i :
  mreach c en s -> active s = Some i ->
  Some (a_ep (get_obj s i)) = init_ep c \/ In (a_ep (get_obj s i)) (offered s).
Proof. intros H Ha. exact (proj2 (proj1 (reachable_inv _ _ _ H) i Ha)). Qed.

(* C09: at most one background election is pending per endpoint object, and one is
   pending exactly while that object's testing latch is set *)
Theorem elections_single c en s :
  mreach c en s -> NoDup (pending s) /\
  (forall i, In i (pending s) <-> (i < length (objs s))%nat /\ a_testing (get_obj s i) = true).
Proof. intros H. exact (proj2 (reachable_inv _ _ _ H)). Qed.

(* ---------- what an election does to the active endpoint ---------- *)
Lemma test_locked_elects c en s e :
  member_ok c s ->
  (fst (fst (find_best en)) = BOk e \/ fst (fst (find_best en)) = BFallback e) ->
  active_ep (fst (test_locked c en s)) = Some e /\ snd (test_locked c en s) = true.
Proof.
  intros Hm Hb. unfold test_locked.
  destruct (find_best en) as [[b seen] evs]. cbn [fst] in Hb.
  assert (M0 : member_ok c (add_log s evs)) by (eapply member_frame; [apply add_log_frame | reflexivity | reflexivity | exact Hm]).
  assert (Hcase : forall (s2 : mstate) (i : nat), a_ep (get_obj s2 i) = e ->
    active_ep (fst (let changed := match active s2 with Some k => negb (a_ep (get_obj s2 k) =? e) | None => true end in
                    (if changed then mkM (objs s2) (Some i) (pending s2) seen (evlog s2 ++ [EvChange e])
                     else mkM (objs s2) (active s2) (pending s2) seen (evlog s2), true))) = Some e).
  { intros s2 i Hep. cbn zeta. destruct (active s2) as [k|] eqn:Ea.
    - destruct (a_ep (get_obj s2 k) =? e) eqn:Ee; cbn [negb fst]; unfold active_ep; cbn [active].
      + apply Z.eqb_eq in Ee. rewrite <- Ee. reflexivity.
      + rewrite <- Hep. reflexivity.
    - cbn [fst]. unfold active_ep; cbn [active]. rewrite <- Hep. reflexivity. }
  destruct Hb as [-> | ->].
  - destruct (new_active c en (add_log s evs) e) as [s1 i] eqn:En.
    destruct (new_active_spec _ _ _ _ _ _ En M0) as (_ & _ & Hep & _).
    split; [apply (Hcase s1 i Hep)|]. destruct (match active s1 with Some k => _ | None => true end); reflexivity.
  - destruct (new_active c en (add_log s evs) e) as [s1 i] eqn:En.
    destruct (new_active_spec _ _ _ _ _ _ En M0) as (_ & _ & Hep & _).
    set (s2 := set_obj s1 i _).
    assert (Hep2 : a_ep (get_obj s2 i) = e).
    { unfold s2. rewrite get_set_obj. destruct (Nat.eqb i i && Nat.ltb i (length (objs s1))); exact Hep. }
    split; [apply (Hcase s2 i Hep2)|]. destruct (match active s2 with Some k => _ | None => true end); reflexivity.
Qed.

(* OnChange is emitted exactly when the elected endpoint differs from the previously
   active one (or there was none) *)
Lemma test_locked_change c en s e :
  member_ok c s ->
  (fst (fst (find_best en)) = BOk e \/ fst (fst (find_best en)) = BFallback e) ->
  changes (evlog (fst (test_locked c en s))) =
    changes (evlog s) ++ (if match active_ep s with Some a => negb (a =? e) | None => true end then [e] else []).
Proof.
  intros Hm Hb. unfold test_locked.
  pose proof (changes_find_best_go (health en) (provs en) 0 None [] []) as Hnc.
  unfold find_best in *. destruct (find_best_go (health en) (provs en) 0 None [] []) as [[b seen] evs]. cbn [fst snd] in *.
  assert (M0 : member_ok c (add_log s evs)) by (eapply member_frame; [apply add_log_frame | reflexivity | reflexivity | exact Hm]).
  assert (Hl0 : changes (evlog (add_log s evs)) = changes (evlog s)).
  { unfold add_log; cbn [evlog]. rewrite changes_app, Hnc. cbn. apply app_nil_r. }
  assert (Hcase : forall (s2 : mstate) (i : nat),
      evlog s2 = evlog (add_log s evs) -> active s2 = active s ->
      (forall k, active s = Some k -> a_ep (get_obj s2 k) = a_ep (get_obj s k)) ->
      changes (evlog (fst (let changed := match active s2 with Some k => negb (a_ep (get_obj s2 k) =? e) | None => true end in
                    (if changed then mkM (objs s2) (Some i) (pending s2) seen (evlog s2 ++ [EvChange e])
                     else mkM (objs s2) (active s2) (pending s2) seen (evlog s2), true)))) =
      changes (evlog s) ++ (if match active_ep s with Some a => negb (a =? e) | None => true end then [e] else [])).
  { intros s2 i Hev Ha Hk. cbn zeta. unfold active_ep. rewrite Ha. destruct (active s) as [k|] eqn:Eak.
    - rewrite (Hk k eq_refl). destruct (negb (a_ep (get_obj s k) =? e)); cbn [fst evlog].
      + rewrite changes_app, Hev, Hl0. reflexivity.
      + rewrite Hev, Hl0, app_nil_r. reflexivity.
    - cbn [fst evlog]. rewrite changes_app, Hev, Hl0. reflexivity. }
  assert (Hold : forall s1 i, new_active c en (add_log s evs) e = (s1, i) ->
            evlog s1 = evlog (add_log s evs) /\ active s1 = active s /\
            (forall k, active s = Some k -> a_ep (get_obj s1 k) = a_ep (get_obj s k))).
  { intros s1 i En. destruct (new_active_spec _ _ _ _ _ _ En M0) as (F1 & _ & _ & Ha1 & _ & Hev1).
    split; [exact Hev1|]. split; [exact Ha1|]. intros k Hk.
    destruct (Hm k Hk) as [Hlt _]. destruct F1 as (_ & O1 & _ & _).
    destruct (O1 k) as [E _]; [unfold add_log; cbn [objs]; exact Hlt|]. rewrite E.
    reflexivity. }
  destruct Hb as [-> | ->].
  - destruct (new_active c en (add_log s evs) e) as [s1 i] eqn:En.
    destruct (Hold s1 i eq_refl) as (Hev & Ha & Hk). apply (Hcase s1 i Hev Ha Hk).
  - destruct (new_active c en (add_log s evs) e) as [s1 i] eqn:En.
    destruct (Hold s1 i eq_refl) as (Hev & Ha & Hk).
    set (s2 := set_obj s1 i _).
    apply (Hcase s2 i); [exact Hev | exact Ha|].
    intros k Hkk. unfold s2. rewrite get_set_obj.
    destruct (Nat.eqb i k && Nat.ltb i (length (objs s1))) eqn:E; [|apply Hk; exact Hkk].
    apply andb_true_iff in E as [E _]. apply Nat.eqb_eq in E. subst k. cbn [a_ep]. apply Hk; exact Hkk.
Qed.

(* errors reaching the threshold on an idle object spawn exactly one election *)
Lemma threshold_spawns c en s q i :
  (i < length (objs s))%nat -> a_testing (get_obj s i) = false ->
  (a_errs (get_obj s i) + 1) mod 4294967296 = eff_threshold c ->
  pending (snd (fst (mstep c en s (QEnd q i false)))) = pending s ++ [i].
Proof.
  intros Hi Ht He. cbn [mstep fst snd]. rewrite He, Z.eqb_refl. unfold spawn.
  rewrite get_set_obj. assert (Nat.ltb i (length (objs s)) = true) as -> by (apply Nat.ltb_lt; exact Hi).
  rewrite Nat.eqb_refl. cbn [andb a_testing]. rewrite Ht. reflexivity.
Qed.

(* a query on an idle object whose test interval has elapsed spawns one *)
Lemma interval_spawns c en s q i :
  active s = Some i -> (i < length (objs s))%nat -> a_testing (get_obj s i) = false ->
  now en - a_last (get_obj s i) > a_interval (get_obj s i) ->
  pending (snd (fst (mstep c en s (QStart q)))) = pending s ++ [i].
Proof.
  intros Ha Hi Ht Hd.
  assert (E : negb (a_testing (get_obj s i)) && (now en - a_last (get_obj s i) >? a_interval (get_obj s i)) = true).
  { rewrite Ht. cbn [negb andb]. lia. }
  cbn [mstep]. rewrite Ha. cbn [fst snd]. rewrite Ha. cbn [fst snd]. rewrite E.
  unfold add_log; cbn [pending]. unfold spawn.
  rewrite get_set_obj. assert (Nat.ltb i (length (objs s)) = true) as -> by (apply Nat.ltb_lt; exact Hi).
  rewrite Nat.eqb_refl. cbn [andb a_testing]. rewrite Ht. reflexivity.
Qed.

(* every query that starts is executed exactly once, on the endpoint that is
   active after getActiveEndpoint; a failed bootstrap reports an error instead:
   QStart appends exactly one Used/QErr event for q (after the events of a
   bootstrap election, if one ran) and no other Used event *)
Definition used_events (evs : list event) : list event :=
  filter (fun ev => match ev with EvUsed _ _ | EvQErr _ => true | _ => false end) evs.

Lemma used_app a b : used_events (a ++ b) = used_events a ++ used_events b.
Proof. unfold used_events. apply filter_app. Qed.

Lemma used_find_best_go h ps j first seen evs :
  used_events (snd (find_best_go h ps j first seen evs)) = used_events evs.
Proof.
  revert j first seen evs; induction ps as [|p r IH]; intros j first seen evs; cbn [find_best_go].
  - destruct first; reflexivity.
  - destruct p as [eps|[|]].
    + assert (Ht : forall evs0, used_events (snd (try_eps h eps evs0)) = used_events evs0).
      { induction eps as [|x eps IHe]; intros evs0; cbn [try_eps]; [reflexivity|].
        destruct (probe_of h x); cbn [snd]; rewrite ?IHe, ?used_app; cbn; rewrite ?app_nil_r; reflexivity. }
      specialize (Ht evs). destruct (try_eps h eps evs) as [[[e|]|] evs'] eqn:Et; cbn [snd] in *; try exact Ht.
      rewrite IH. exact Ht.
    + rewrite IH, used_app. cbn. apply app_nil_r.
    + reflexivity.
Qed.

Lemma test_locked_used c en s : used_events (evlog (fst (test_locked c en s))) = used_events (evlog s).
Proof.
  unfold test_locked. pose proof (used_find_best_go (health en) (provs en) 0 None [] []) as Hu.
  unfold find_best. destruct (find_best_go (health en) (provs en) 0 None [] []) as [[b seen] evs]. cbn [snd] in Hu.
  assert (H0 : used_events (evlog (add_log s evs)) = used_events (evlog s)).
  { unfold add_log; cbn [evlog]. rewrite used_app, Hu. cbn. apply app_nil_r. }
  assert (Hna : forall e s1 i, new_active c en (add_log s evs) e = (s1, i) -> evlog s1 = evlog (add_log s evs)).
  { intros e s1 i En. unfold new_active in En. destruct (active (add_log s evs)) as [k|];
      [destruct (a_ep (get_obj (add_log s evs) k) =? e)|]; inversion En; reflexivity. }
  destruct b as [e|e| |]; try exact H0.
  - destruct (new_active c en (add_log s evs) e) as [s1 i] eqn:En. rewrite <- H0, <- (Hna _ _ _ En).
    destruct (match active s1 with Some k => _ | None => true end); cbn [fst evlog]; [|reflexivity].
    rewrite used_app. cbn. apply app_nil_r.
  - destruct (new_active c en (add_log s evs) e) as [s1 i] eqn:En. rewrite <- H0, <- (Hna _ _ _ En).
    set (s2 := set_obj s1 i _).
    destruct (match active s2 with Some k => _ | None => true end); cbn [fst evlog]; [|reflexivity].
    rewrite used_app. cbn. apply app_nil_r.
Qed.

Lemma ep_set_obj s i a j : a_ep a = a_ep (get_obj s i) -> a_ep (get_obj (set_obj s i a) j) = a_ep (get_obj s j).
Proof.
  intros H. rewrite get_set_obj. destruct (Nat.eqb i j && Nat.ltb i (length (objs s))) eqn:E; [|reflexivity].
  apply andb_true_iff in E as [E _]. apply Nat.eqb_eq in E. subst j. exact H.
Qed.
Lemma ep_spawn s i j : a_ep (get_obj (spawn s i) j) = a_ep (get_obj s j).
Proof.
  unfold spawn. destruct (a_testing (get_obj s i)); [reflexivity|].
  rewrite (get_obj_same_objs _ (set_obj s i (mkAe (a_ep (get_obj s i)) (a_last (get_obj s i)) (a_interval (get_obj s i)) true (a_errs (get_obj s i)))) j) by reflexivity.
  apply ep_set_obj. reflexivity.
Qed.
Lemma evlog_spawn s i : evlog (spawn s i) = evlog s.
Proof. unfold spawn. destruct (a_testing (get_obj s i)); reflexivity. Qed.

Theorem qstart_once c en s q :
  exists ev, used_events (evlog (snd (fst (mstep c en s (QStart q))))) = used_events (evlog s) ++ [ev] /\
    match snd (mstep c en s (QStart q)) with
    | Some i => ev = EvUsed q (a_ep (get_obj (snd (fst (mstep c en s (QStart q)))) i))
    | None => ev = EvQErr q
    end.
Proof.
  cbn [mstep].
  set (boot := match active s with Some _ => (s, true) | None => _ end).
  assert (Hb : used_events (evlog (fst boot)) = used_events (evlog s)).
  { unfold boot. destruct (active s); [reflexivity|]. destruct (init_ep c) as [e0|].
    - destruct (new_active c en s e0) as [s' i] eqn:En. cbn [fst evlog set_obj].
      unfold new_active in En. destruct (active s) as [k|]; [destruct (a_ep (get_obj s k) =? e0)|]; inversion En; reflexivity.
    - pose proof (test_locked_used c en s) as Ht. destruct (test_locked c en s); exact Ht. }
  destruct boot as [s1 okb]. cbn [fst] in Hb.
  destruct (active s1) as [i|] eqn:Ea.
  - destruct okb; cbn [fst snd].
    + eexists. split; [|reflexivity]. unfold add_log; cbn [evlog]. rewrite used_app. cbn [used_events filter app].
      f_equal; [|f_equal; f_equal].
      * destruct (negb (a_testing (get_obj s1 i)) && _); [|exact Hb]. rewrite evlog_spawn. exact Hb.
      * match goal with |- _ = a_ep (get_obj ?S i) => rewrite (get_obj_same_objs S (if negb (a_testing (get_obj s1 i)) && (now en - a_last (get_obj s1 i) >? a_interval (get_obj s1 i)) then spawn (set_obj s1 i (mkAe (a_ep (get_obj s1 i)) (now en) (a_interval (get_obj s1 i)) (a_testing (get_obj s1 i)) (a_errs (get_obj s1 i)))) i else s1) i) by reflexivity end.
        destruct (negb (a_testing (get_obj s1 i)) && _); [|reflexivity].
        rewrite ep_spawn, ep_set_obj; reflexivity.
    + eexists. split; [|reflexivity]. unfold add_log; cbn [evlog]. rewrite used_app, Hb. reflexivity.
  - cbn [fst snd]. eexists. split; [|destruct okb; reflexivity].
    destruct okb; unfold add_log; cbn [evlog]; rewrite used_app, Hb; reflexivity.
Qed.
