(* Proofs/FwdTextFacts.v -- what config/forwarder.go's String() writes, newResolver reads
   back to the same rule: the environment hypothesis [parse_show] of the generic store
   (C17) discharged for the forwarder option, for every rule newResolver can produce. *)
From NX Require Import Bytes FwdText ConfigFacts.
From Coq Require Import Lia.
Open Scope Z_scope.

(* ---------- trimming ---------- *)
Lemma trim_left_idem s : trim_left (trim_left s) = trim_left s.
Proof.
  induction s as [|c r IH]; cbn [trim_left]; [reflexivity|].
  destruct (is_space c) eqn:E; [exact IH|]. cbn [trim_left]. rewrite E. reflexivity.
Qed.

Definition head_ok (s : bytes) : Prop := match s with [] => True | c :: _ => is_space c = false end.
Definition last_ok (s : bytes) : Prop := head_ok (rev s).

Lemma trim_left_head s : head_ok (trim_left s).
Proof. induction s as [|c r IH]; cbn [trim_left]; [exact I|]. destruct (is_space c) eqn:E; [exact IH | exact E]. Qed.
Lemma trim_left_fix s : head_ok s -> trim_left s = s.
Proof. destruct s as [|c r]; cbn; [reflexivity|]. intros ->. reflexivity. Qed.
Lemma trim_right_fix s : last_ok s -> trim_right s = s.
Proof. unfold last_ok, trim_right. intros H. rewrite trim_left_fix by exact H. apply rev_involutive. Qed.
Lemma trim_right_last s : last_ok (trim_right s).
Proof. unfold last_ok, trim_right. rewrite rev_involutive. apply trim_left_head. Qed.

(* dropping a suffix keeps the head condition *)
Lemma trim_left_rev_head s : head_ok s -> head_ok (rev (trim_left (rev s))).
Proof.
  intros H. destruct s as [|c r]; [exact I|]. cbn [head_ok] in H.
  (* rev (c :: r) = rev r ++ [c]; trimming from the left of it stops at c at the latest *)
  cbn [rev].
  assert (G : forall l, exists m, trim_left (l ++ [c]) = m ++ [c]).
  { induction l as [|x l IH]; cbn [app trim_left].
    - rewrite H. exists []. reflexivity.
    - destruct (is_space x); [exact IH | exists (x :: l); reflexivity]. }
  destruct (G (rev r)) as [m ->]. rewrite rev_app_distr. cbn. exact H.
Qed.

Lemma trim_space_head s : head_ok (trim_space s).
Proof. unfold trim_space, trim_right. apply trim_left_rev_head. apply trim_left_head. Qed.
Lemma trim_space_last s : last_ok (trim_space s).
Proof. unfold trim_space. apply trim_right_last. Qed.
Lemma trim_space_fix s : head_ok s -> last_ok s -> trim_space s = s.
Proof. intros H1 H2. unfold trim_space. rewrite trim_left_fix by exact H1. apply trim_right_fix. exact H2. Qed.
Lemma trim_space_idem s : trim_space (trim_space s) = trim_space s.
Proof. apply trim_space_fix; [apply trim_space_head | apply trim_space_last]. Qed.

(* ---------- the cut at the first '=' ---------- *)
Definition no_eq (s : bytes) : Prop := Forall (fun c => c <> 61) s.

Lemma cut_eq_no_eq s a b : cut_eq s = Some (a, b) -> no_eq a /\ s = a ++ 61 :: b.
Proof.
  revert a b. induction s as [|c r IH]; intros a b; cbn [cut_eq]; [discriminate|].
  destruct (Z.eqb_spec c 61) as [->|Hc].
  - intros [= <- <-]. split; [constructor | reflexivity].
  - destruct (cut_eq r) as [[a' b']|]; [|discriminate]. intros [= <- <-].
    destruct (IH _ _ eq_refl) as [Hn ->]. split; [constructor; assumption | reflexivity].
Qed.
Lemma cut_eq_app a b : no_eq a -> cut_eq (a ++ 61 :: b) = Some (a, b).
Proof.
  induction a as [|c r IH]; intros H; cbn [app cut_eq]; [reflexivity|].
  inversion H as [|? ? Hc Hr]; subst. destruct (Z.eqb_spec c 61); [contradiction|]. rewrite IH by exact Hr. reflexivity.
Qed.
Lemma cut_eq_none s : cut_eq s = None -> no_eq s.
Proof.
  induction s as [|c r IH]; cbn [cut_eq]; intros H; [constructor|].
  destruct (Z.eqb_spec c 61); [discriminate|]. destruct (cut_eq r) as [[? ?]|]; [discriminate|].
  constructor; [assumption | apply IH; reflexivity].
Qed.
Lemma no_eq_cut s : no_eq s -> cut_eq s = None.
Proof.
  induction s as [|c r IH]; intros H; cbn [cut_eq]; [reflexivity|].
  inversion H as [|? ? Hc Hr]; subst. destruct (Z.eqb_spec c 61); [contradiction|]. rewrite IH by exact Hr. reflexivity.
Qed.

Lemma no_eq_trim_left s : no_eq s -> no_eq (trim_left s).
Proof.
  induction s as [|c r IH]; intros H; cbn [trim_left]; [constructor|].
  inversion H; subst. destruct (is_space c); [apply IH; assumption | exact H].
Qed.
Lemma no_eq_rev s : no_eq s -> no_eq (rev s).
Proof. unfold no_eq. intros H. apply Forall_forall. intros x Hx. rewrite Forall_forall in H. apply H. apply in_rev. exact Hx. Qed.
Lemma no_eq_trim_space s : no_eq s -> no_eq (trim_space s).
Proof. intros H. unfold trim_space, trim_right. apply no_eq_rev, no_eq_trim_left, no_eq_rev, no_eq_trim_left, H. Qed.

(* ---------- fqdn ---------- *)
Lemma has_suffix_dot_app s : has_suffix [46] (s ++ [46]) = true.
Proof. apply has_suffix_iff. exists s. reflexivity. Qed.
Lemma fqdn_text_ends s : has_suffix [46] (fqdn_text s) = true.
Proof. unfold fqdn_text. destruct (has_suffix [46] s) eqn:E; [exact E | apply has_suffix_dot_app]. Qed.
Lemma fqdn_text_idem s : fqdn_text (fqdn_text s) = fqdn_text s.
Proof. unfold fqdn_text at 1. rewrite fqdn_text_ends. reflexivity. Qed.
Lemma fqdn_text_nonempty s : fqdn_text s <> [].
Proof. unfold fqdn_text. destruct (has_suffix [46] s) eqn:E; [destruct s; [discriminate E | discriminate] | destruct s; discriminate]. Qed.
Lemma no_eq_fqdn s : no_eq s -> no_eq (fqdn_text s).
Proof. intros H. unfold fqdn_text. destruct (has_suffix [46] s); [exact H|]. apply Forall_app. split; [exact H | constructor; [lia | constructor]]. Qed.

Lemma has_suffix_dot_last s : has_suffix [46] s = true -> exists p, s = p ++ [46].
Proof. intros H. apply has_suffix_iff in H. exact H. Qed.

(* a trimmed text made fully qualified is still trimmed *)
Lemma fqdn_text_head s : head_ok s -> head_ok (fqdn_text s).
Proof. intros H. unfold fqdn_text. destruct (has_suffix [46] s); [exact H|]. destruct s; cbn; [reflexivity | exact H]. Qed.
Lemma fqdn_text_last s : last_ok (fqdn_text s).
Proof.
  destruct (has_suffix_dot_last _ (fqdn_text_ends s)) as [p ->]. unfold last_ok. rewrite rev_app_distr. cbn. reflexivity.
Qed.

(* ---------- the round trip ---------- *)
Section RoundTrip.
  Variable valid : bytes -> bool.

  (* the rules newResolver produces *)
  Definition frule_good (r : frule) : Prop := exists v, fwd_text_parse valid v = Some r.

  Theorem fwd_text_roundtrip : forall r, frule_good r -> fwd_text_parse valid (fwd_text_show r) = Some r.
  Proof.
    intros [d a] [v Hv]. unfold fwd_text_parse in Hv.
    destruct (cut_eq v) as [[d0 a0]|] eqn:Ec.
    - cbn [snd] in Hv. destruct (valid (trim_space a0)) eqn:Ev; [|discriminate]. injection Hv as <- <-.
      destruct (cut_eq_no_eq _ _ _ Ec) as [Hn _].
      unfold fwd_text_show. cbn [fst snd].
      destruct (fqdn_text (trim_space d0)) as [|c0 dr] eqn:Ed; [exfalso; exact (fqdn_text_nonempty _ Ed)|].
      rewrite <- Ed. unfold fwd_text_parse.
      rewrite cut_eq_app by (apply no_eq_fqdn, no_eq_trim_space, Hn).
      rewrite (trim_space_fix (fqdn_text (trim_space d0))) by (first [apply fqdn_text_head, trim_space_head | apply fqdn_text_last]).
      rewrite fqdn_text_idem, trim_space_idem. cbn [snd]. rewrite Ev. reflexivity.
    - cbn [snd] in Hv. destruct (valid v) eqn:Ev; [|discriminate]. injection Hv as <- <-.
      unfold fwd_text_show. cbn [fst snd]. unfold fwd_text_parse. rewrite Ec. cbn [snd]. rewrite Ev. reflexivity.
  Qed.

  (* the replacement criterion of Forwarders.Set can be read off the printed form:
     the text before the first '=' (none: unconditional) *)
  Theorem fwd_text_same : forall r1 r2, frule_good r1 -> frule_good r2 ->
    (fst r1 = fst r2 <-> printed_cond (fwd_text_show r1) = printed_cond (fwd_text_show r2)).
  Proof.
    assert (P : forall r, frule_good r ->
              printed_cond (fwd_text_show r) = match fst r with [] => None | d => Some d end).
    { intros [d a] [v Hv]. unfold fwd_text_parse in Hv. unfold printed_cond, fwd_text_show. cbn [fst snd].
      destruct (cut_eq v) as [[d0 a0]|] eqn:Ec.
      - cbn [snd] in Hv. destruct (valid (trim_space a0)); [|discriminate]. injection Hv as <- <-.
        destruct (cut_eq_no_eq _ _ _ Ec) as [Hn _].
        destruct (fqdn_text (trim_space d0)) as [|c0 dr] eqn:Ed; [exfalso; exact (fqdn_text_nonempty _ Ed)|].
        rewrite <- Ed. rewrite cut_eq_app by (apply no_eq_fqdn, no_eq_trim_space, Hn). reflexivity.
      - cbn [snd] in Hv. destruct (valid v); [|discriminate]. injection Hv as <- <-.
        rewrite Ec. reflexivity. }
    intros r1 r2 H1 H2. rewrite (P _ H1), (P _ H2).
    destruct (fst r1) as [|x1 t1], (fst r2) as [|x2 t2]; split; intros H; try reflexivity; try discriminate; congruence.
  Qed.
End RoundTrip.

(* non-vacuity: " Example.COM = 1.1.1.1 " is read as ("Example.COM.", "1.1.1.1"), printed
   "Example.COM.=1.1.1.1" and read back to the same rule; an address with '=' survives *)
Example fwd_text_example :
  let v := [32;69;120;46;67;79;77;32;61;32;49;46;49;32] in
  fwd_text_parse (fun _ => true) v = Some ([69;120;46;67;79;77;46], [49;46;49]) /\
  fwd_text_show ([69;120;46;67;79;77;46], [49;46;49]) = [69;120;46;67;79;77;46;61;49;46;49] /\
  fwd_text_parse (fun _ => true) [97;61;98;61;99] = Some ([97;46], [98;61;99]) /\
  fwd_text_parse (fun _ => true) [61;49] = Some ([46], [49]).
Proof. vm_compute. repeat split. Qed.
