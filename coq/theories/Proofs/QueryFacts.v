(* Proofs/QueryFacts.v -- query.parse / nutterECSOption / handle: totality
   (no panic, no exhausted loop bound) and the byte-level effect of the ECS
   rewriting. *)
From NX Require Import Bytes Wire Reply Query WireFacts ReplyFacts.
From Coq Require Import ZifyBool.
Open Scope Z_scope.

(* ---------- small list facts ---------- *)

Lemma nth_error_in_range {A} (l : list A) (i : Z) :
  0 <= i < len l -> exists x, nth_error l (Z.to_nat i) = Some x.
Proof.
  unfold len; intros H.
  destruct (nth_error l (Z.to_nat i)) eqn:E; [eauto|].
  apply nth_error_None in E. lia.
Qed.

Lemma len_set_nth {A} i (x : A) l : len (set_nth i x l) = len l.
Proof.
  unfold len; f_equal. revert i; induction l as [|h t IH]; intros i; [destruct i; reflexivity|].
  destruct i; cbn [set_nth length]; [reflexivity | rewrite IH; reflexivity].
Qed.

Lemma nth_set_nth_other {A} i j (x : A) l d : i <> j -> nth j (set_nth i x l) d = nth j l d.
Proof.
  revert i j; induction l as [|h t IH]; intros i j Hij; [destruct i; reflexivity|].
  destruct i, j; cbn [set_nth nth]; try reflexivity; try congruence. apply IH; congruence.
Qed.

Lemma nth_set_nth_same {A} i (x : A) l d : (i < length l)%nat -> nth i (set_nth i x l) d = x.
Proof.
  revert i; induction l as [|h t IH]; intros i Hi; cbn [length] in Hi; [lia|].
  destruct i; cbn [set_nth nth]; [reflexivity | apply IH; lia].
Qed.

Lemma length_set_nth {A} i (x : A) l : length (set_nth i x l) = length l.
Proof.
  revert i; induction l as [|h t IH]; intros i; [destruct i; reflexivity|].
  destruct i; cbn [set_nth length]; [reflexivity | rewrite IH; reflexivity].
Qed.
Lemma length_zero_range p from to i : length (zero_range p from to i) = length p.
Proof.
  revert i; induction p as [|b r IH]; intros i; cbn [zero_range length]; [reflexivity|].
  rewrite IH; reflexivity.
Qed.

Lemma len_zero_range p from to i : len (zero_range p from to i) = len p.
Proof.
  unfold len; f_equal. revert i; induction p as [|b r IH]; intros i; cbn [zero_range length]; [reflexivity|].
  rewrite IH; reflexivity.
Qed.

Lemma nth_zero_range p from to i0 j d :
  (j < length p)%nat ->
  nth j (zero_range p from to i0) d =
    if (from <=? i0 + Z.of_nat j) && (i0 + Z.of_nat j <? to) then 0 else nth j p d.
Proof.
  revert i0 j; induction p as [|b r IH]; intros i0 j Hj; cbn [length] in Hj; [lia|].
  cbn [zero_range]. destruct j as [|j]; cbn [nth].
  - replace (i0 + Z.of_nat 0) with i0 by lia. reflexivity.
  - rewrite IH by lia. replace (i0 + 1 + Z.of_nat j) with (i0 + Z.of_nat (S j)) by lia. reflexivity.
Qed.

(* ---------- nutterECSOption ---------- *)
Lemma nutter_normal payload dataoff : normal (nutter payload dataoff).
Proof.
  unfold nutter.
  destruct ((dataoff - 4 <? 0) || (dataoff - 4 + 4 >=? len payload)) eqn:E; [exact I|].
  destruct (nth_error_in_range payload (dataoff - 4 + 3)) as [x Hx]; [lia|].
  rewrite Hx. destruct (_ >? _); exact I.
Qed.

Lemma nutter_len payload dataoff p' : nutter payload dataoff = Ok p' -> len p' = len payload.
Proof.
  unfold nutter.
  destruct ((dataoff - 4 <? 0) || (dataoff - 4 + 4 >=? len payload)); [intros E; inversion E; reflexivity|].
  destruct (nth_error payload (Z.to_nat (dataoff - 4 + 3))) as [size|]; [|discriminate].
  destruct (_ >? _); intros E; inversion E; subst; [reflexivity|].
  rewrite !len_set_nth, len_zero_range. reflexivity.
Qed.

(* bytes outside [dataoff-4, dataoff-4+4+size) are untouched; size is the low
   byte of the option's length field as it stands in the payload *)
Lemma okb_nth_error l i x : okb l -> nth_error l i = Some x -> 0 <= x < 256.
Proof.
  intros H E. apply nth_error_In in E. unfold okb in H. rewrite Forall_forall in H. apply H; exact E.
Qed.

Lemma nutter_outside payload dataoff p' j d :
  okb payload ->
  nutter payload dataoff = Ok p' ->
  (Z.of_nat j < dataoff - 4 \/ dataoff + nth (Z.to_nat (dataoff - 1)) payload 0 <= Z.of_nat j) ->
  nth j p' d = nth j payload d.
Proof.
  intros Hokb. unfold nutter.
  destruct ((dataoff - 4 <? 0) || (dataoff - 4 + 4 >=? len payload)) eqn:E0; [intros E; inversion E; reflexivity|].
  destruct (nth_error payload (Z.to_nat (dataoff - 4 + 3))) as [size|] eqn:Es; [|discriminate].
  pose proof (okb_nth_error _ _ _ Hokb Es) as Hsize.
  assert (Hsz : nth (Z.to_nat (dataoff - 1)) payload 0 = size).
  { replace (dataoff - 1) with (dataoff - 4 + 3) by lia. apply nth_error_nth. exact Es. }
  rewrite Hsz.
  destruct (_ >? _) eqn:E1; intros E; injection E as <-; [reflexivity|]. intros Hj.
  rewrite !nth_set_nth_other by lia.
  destruct (Nat.lt_ge_cases j (length payload)) as [Hlt|Hge].
  - rewrite nth_zero_range by exact Hlt.
    destruct ((dataoff <=? 0 + Z.of_nat j) && (0 + Z.of_nat j <? dataoff - 4 + 4 + size)) eqn:E2; [lia|reflexivity].
  - rewrite !nth_overflow; [reflexivity | exact Hge |].
    pose proof (len_zero_range payload dataoff (dataoff - 4 + 4 + size) 0) as HL. unfold len in HL. lia.
Qed.

(* when the option lies inside the payload it becomes inert: code 0xFFFF and
   all-zero data (the length field is left as it was) *)
Lemma nutter_inert payload dataoff :
  4 <= dataoff -> dataoff < len payload ->
  let size := nth (Z.to_nat (dataoff - 1)) payload 0 in
  dataoff + size <= len payload ->
  exists p', nutter payload dataoff = Ok p' /\
    nth (Z.to_nat (dataoff - 4)) p' 0 = 255 /\ nth (Z.to_nat (dataoff - 3)) p' 0 = 255 /\
    nth (Z.to_nat (dataoff - 2)) p' 0 = nth (Z.to_nat (dataoff - 2)) payload 0 /\
    nth (Z.to_nat (dataoff - 1)) p' 0 = size /\
    (forall j, dataoff <= Z.of_nat j < dataoff + size -> nth j p' 0 = 0).
Proof.
  intros H4 Hlt size Hend. unfold nutter.
  destruct ((dataoff - 4 <? 0) || (dataoff - 4 + 4 >=? len payload)) eqn:E0; [lia|].
  destruct (nth_error_in_range payload (dataoff - 4 + 3)) as [x Hx]; [lia|]. rewrite Hx.
  assert (Hsz : size = x).
  { unfold size. replace (dataoff - 1) with (dataoff - 4 + 3) by lia. apply nth_error_nth. exact Hx. }
  destruct (dataoff - 4 + 4 + x >? len payload) eqn:E1; [lia|].
  eexists; split; [reflexivity|].
  pose proof (length_zero_range payload dataoff (dataoff - 4 + 4 + x) 0) as HL.
  unfold len in *.
  repeat split.
  - apply nth_set_nth_same. rewrite length_set_nth, HL. lia.
  - rewrite nth_set_nth_other by lia.
    replace (Z.to_nat (dataoff - 3)) with (Z.to_nat (dataoff - 4 + 1)) by lia.
    apply nth_set_nth_same. rewrite HL. lia.
  - rewrite !nth_set_nth_other by lia. rewrite nth_zero_range by lia.
    destruct ((dataoff <=? 0 + Z.of_nat (Z.to_nat (dataoff - 2))) && _) eqn:E2; [lia|reflexivity].
  - rewrite !nth_set_nth_other by lia. rewrite nth_zero_range by lia.
    destruct ((dataoff <=? 0 + Z.of_nat (Z.to_nat (dataoff - 1))) && _) eqn:E2; [lia|]. reflexivity.
  - intros j Hj. rewrite !nth_set_nth_other by lia. rewrite nth_zero_range by lia.
    destruct ((dataoff <=? 0 + Z.of_nat j) && (0 + Z.of_nat j <? dataoff - 4 + 4 + x)) eqn:E2; [reflexivity|lia].
Qed.

(* ---------- the option loop ---------- *)
Lemma apply_opts_normal os q : normal (apply_opts os q).
Proof.
  revert q; induction os as [|o rest IH]; intros q; cbn [apply_opts]; [exact I|].
  destruct (o_code o =? 65001); [apply IH|].
  destruct (o_code o =? 8); [|apply IH].
  destruct (len (o_data o) <? 8) eqn:E8; [apply IH|].
  destruct (o_data o) as [|a [|fam [|plen r]]] eqn:Ed;
    try (unfold len in E8; cbn [length] in E8; lia).
  destruct (fam =? 1).
  - apply normal_bind; [apply nutter_normal | intros; apply IH].
  - destruct (fam =? 2); [|apply IH].
    apply normal_bind; [apply nutter_normal | intros; apply IH].
Qed.

Lemma apply_opts_len os q q' : apply_opts os q = Ok q' -> len (q_payload q') = len (q_payload q).
Proof.
  revert q; induction os as [|o rest IH]; intros q E; cbn [apply_opts] in E; [inversion E; reflexivity|].
  destruct (o_code o =? 65001); [apply IH in E; exact E|].
  destruct (o_code o =? 8); [|apply IH; exact E].
  destruct (len (o_data o) <? 8); [apply IH; exact E|].
  destruct (o_data o) as [|a [|fam [|plen r]]]; try discriminate.
  destruct (fam =? 1).
  - apply bind_ok in E as (pl & En & E). apply IH in E. cbn [q_payload] in E. rewrite E. eapply nutter_len; exact En.
  - destruct (fam =? 2); [|apply IH; exact E].
    apply bind_ok in E as (pl & En & E). apply IH in E. cbn [q_payload] in E. rewrite E. eapply nutter_len; exact En.
Qed.

(* everything except the payload, peer and MAC is left alone by the option loop *)
Lemma apply_opts_fields os q q' : apply_opts os q = Ok q' ->
  q_id q' = q_id q /\ q_class q' = q_class q /\ q_type q' = q_type q /\ q_rd q' = q_rd q /\
  q_msgsize q' = q_msgsize q /\ q_name q' = q_name q.
Proof.
  revert q; induction os as [|o rest IH]; intros q E; cbn [apply_opts] in E; [inversion E; auto 10|].
  destruct (o_code o =? 65001); [apply IH in E; exact E|].
  destruct (o_code o =? 8); [|apply IH; exact E].
  destruct (len (o_data o) <? 8); [apply IH; exact E|].
  destruct (o_data o) as [|a [|fam [|plen r]]]; try discriminate.
  destruct (fam =? 1).
  - apply bind_ok in E as (pl & En & E). apply IH in E. exact E.
  - destruct (fam =? 2); [|apply IH; exact E].
    apply bind_ok in E as (pl & En & E). apply IH in E. exact E.
Qed.

(* ---------- the additional-section loop (after the F1 repair) ---------- *)
Lemma p_resource_header_spec msg p sec :
  okb msg -> pinv p -> p_hv p = false ->
  let '(p1, r) := p_resource_header msg p sec in
  normal r /\
  (forall h, r = Ok h -> pinv p1 /\ p_hv p1 = true /\ p_hdr p1 = p_hdr p /\ p_sec p = sec /\
                         p_sec p1 = sec /\ p_idx p1 = p_idx p /\ p_rh p1 = h).
Proof.
  intros Hm Hp Hv. unfold p_resource_header. rewrite Hv.
  destruct (check_advance p sec) as [p1 r] eqn:Eca.
  destruct (check_advance_inv _ _ _ _ Hp Eca) as (Hp1 & Hh & Hr).
  destruct r as [e|]; [split; [exact I | intros h Eh; discriminate]|].
  destruct (Hr eq_refl) as (Hs1 & Hs & Hi & Hlt & Hv1 & Hcur).
  pose proof Hp1 as (Hh1 & Hc1 & Hi1 & _ & _).
  unfold lift. pose proof (unpack_rheader_normal msg (p_cur p1)) as N.
  destruct (unpack_rheader msg (p_cur p1)) as [[h c]| | |] eqn:Eu; try contradiction.
  - split; [exact I|]. intros h' Eh; inversion Eh; subst h'.
    apply unpack_rheader_ok in Eu as [Hc Hl]; [|exact Hm|exact Hc1].
    refine (conj _ (conj _ (conj _ (conj _ (conj _ (conj _ _)))))); psimpl; try reflexivity; try assumption.
    pinv_intro; try assumption.
    + intros _. rewrite Hh, Hs1, Hi. exact Hlt.
    + intros _. exact Hl.
  - split; [exact I | intros h Eh; discriminate].
Qed.

Lemma p_skip_latched p sec :
  pinv p -> p_hv p = true ->
  let '(p1, r) := p_skip_resource p sec in
  normal r /\ (forall u, r = Ok u -> pinv p1 /\ p_hv p1 = false /\ p_hdr p1 = p_hdr p /\
                                     p_sec p1 = p_sec p /\ p_idx p1 = p_idx p + 1).
Proof.
  intros Hp Hv. unfold p_skip_resource. rewrite Hv.
  pose proof Hp as (Hh & Hc & Hi & Hvv & Hl).
  destruct (advance (rh_len (p_rh p)) (p_cur p)) as [c|] eqn:Ea.
  - split; [exact I|]. intros u _.
    refine (conj _ (conj _ (conj _ (conj _ _)))); psimpl; try reflexivity.
    pinv_intro; try assumption; try discriminate.
    + eapply advance_ok; eassumption.
    + specialize (Hvv Hv). lia.
  - split; [exact I | intros u Eu; discriminate].
Qed.

Lemma additional_loop_normal fuel msg p q :
  okb msg -> pinv p -> p_hv p = false ->
  (p_sec p = secAr -> count (p_hdr p) secAr - p_idx p + 1 < Z.of_nat fuel) ->
  1 < Z.of_nat fuel ->
  normal (additional_loop fuel msg p q).
Proof.
  intros Hm. revert p q. induction fuel as [|f IH]; intros p q Hp Hv Hf H1; [cbn in H1; lia|].
  cbn [additional_loop].
  pose proof (p_resource_header_spec msg p secAr Hm Hp Hv) as Hrh.
  destruct (p_resource_header msg p secAr) as [p1 r].
  destruct Hrh as (Hn & Hok).
  destruct r as [h|e| |]; try contradiction.
  - destruct (Hok h eq_refl) as (Hp1 & Hv1 & Hh1 & Hs & Hs1 & Hi1 & Hrh).
    destruct (negb (rh_type h =? 41)).
    + pose proof (p_skip_latched p1 secAr Hp1 Hv1) as Hsk.
      destruct (p_skip_resource p1 secAr) as [p2 r2]. destruct Hsk as (Hn2 & Hok2).
      destruct r2 as [u|e| |]; try contradiction; [|exact I].
      destruct (Hok2 u eq_refl) as (Hp2 & Hv2 & Hh2 & Hs2 & Hi2).
      specialize (Hf Hs).
      pose proof Hp2 as (_ & _ & Hi2' & _).
      apply IH; try assumption.
      * intros _. rewrite Hh2, Hh1, Hi2, Hi1. lia.
      * rewrite Hs2, Hs1, Hh2, Hh1, Hi2, Hi1 in Hi2'. lia.
    + pose proof Hp1 as (_ & Hc1 & _ & _ & Hl1). specialize (Hl1 Hv1).
      unfold p_opt_resource. rewrite Hv1. cbn [negb orb].
      destruct (negb (rh_type (p_rh p1) =? 41)); [exact I|].
      pose proof (unpack_opts_normal (opts_fuel (rh_len (p_rh p1))) (p_cur p1) (rh_len (p_rh p1)) [] Hc1) as No.
      unfold opts_fuel in *.
      destruct (unpack_opts _ _ _ _) as [os|e| |]; try exact I; try (apply No; lia).
      apply normal_bind; [apply apply_opts_normal | intros; exact I].
  - destruct (e =? eSectionDone); exact I.
Qed.

(* ---------- Query.parse is total ---------- *)
Lemma p_question_spec msg p :
  okb msg -> pinv p -> p_hv p = false ->
  let '(p1, r) := p_question msg p in
  normal r /\ (forall v, r = Ok v -> pinv p1 /\ p_hv p1 = false /\ p_hdr p1 = p_hdr p).
Proof.
  intros Hm Hp Hv. unfold p_question.
  destruct (check_advance p secQ) as [p1 r] eqn:Eca.
  destruct (check_advance_inv _ _ _ _ Hp Eca) as (Hp1 & Hh & Hr).
  pose proof (check_advance_hv _ _ _ _ Eca Hv) as Hv1.
  destruct r as [e|]; [split; [exact I | intros v Ev; discriminate]|].
  destruct (Hr eq_refl) as (Hs1 & Hs & Hi & Hlt & _ & Hcur).
  pose proof Hp1 as (Hh1 & Hc1 & Hi1 & _ & _).
  unfold lift.
  destruct (bind (unpack_name msg (p_cur p1)) _) as [[[[name typ] cls] c3]| | |] eqn:Eb.
  - split; [exact I|]. intros v _.
    apply bind_ok in Eb as ([n c1] & E1 & Eb). apply unpack_name_ok in E1; [|exact Hm|exact Hc1].
    apply bind_ok in Eb as ([v2 c2] & E2 & Eb). apply get16_ok in E2 as [H2 _]; [|exact E1].
    apply bind_ok in Eb as ([v3 c3'] & E3 & Eb). apply get16_ok in E3 as [H3 _]; [|exact H2].
    inversion Eb; subst.
    refine (conj _ (conj _ _)); psimpl; try assumption.
    pinv_intro; try assumption; try (rewrite Hv1; discriminate).
    rewrite Hh, Hs1, Hi. lia.
  - split; [exact I | intros v Ev; discriminate].
  - exfalso. revert Eb.
    pose proof (unpack_name_normal msg (p_cur p1)) as N1.
    destruct (unpack_name msg (p_cur p1)) as [[n c1]| | |]; cbn [bind]; try discriminate; try contradiction.
    pose proof (get16_normal c1) as N2. destruct (get16 c1) as [[v2 c2]| | |]; cbn [bind]; try discriminate; try contradiction.
    pose proof (get16_normal c2) as N3. destruct (get16 c2) as [[v3 c3]| | |]; cbn [bind]; try discriminate; try contradiction.
  - exfalso. revert Eb.
    pose proof (unpack_name_normal msg (p_cur p1)) as N1.
    destruct (unpack_name msg (p_cur p1)) as [[n c1]| | |]; cbn [bind]; try discriminate; try contradiction.
    pose proof (get16_normal c1) as N2. destruct (get16 c1) as [[v2 c2]| | |]; cbn [bind]; try discriminate; try contradiction.
    pose proof (get16_normal c2) as N3. destruct (get16 c2) as [[v3 c3]| | |]; cbn [bind]; try discriminate; try contradiction.
Qed.

Lemma skip_all_fuel_enough h sec idx :
  hdr_ok h -> 0 <= idx -> count h sec - idx + 1 < Z.of_nat (skip_all_fuel h sec) /\ 1 < Z.of_nat (skip_all_fuel h sec).
Proof.
  intros Hh Hi. pose proof (count_range h sec Hh). unfold skip_all_fuel. lia.
Qed.

Theorem parse_normal payload : okb payload -> normal (parse payload).
Proof.
  intros Hm. unfold parse.
  pose proof (p_start_normal payload) as N0.
  destruct (p_start payload) as [p0|e| |] eqn:E0; try contradiction; [|exact I].
  pose proof (p_start_inv _ _ Hm E0) as Hp0.
  assert (Hv0 : p_hv p0 = false).
  { unfold p_start in E0. apply bind_ok in E0 as ([h c] & _ & E). inversion E; reflexivity. }
  pose proof (p_question_spec payload p0 Hm Hp0 Hv0) as Hq.
  destruct (p_question payload p0) as [p1 r]. destruct Hq as (Nq & Hqok).
  destruct r as [[[name typ] cls]|e| |]; try contradiction; [|exact I].
  destruct (Hqok _ eq_refl) as (Hp1 & Hv1 & Hh1).
  pose proof Hp0 as (Hhdr & _).
  (* three skip-all phases *)
  pose proof Hp1 as (_ & _ & (Hi1 & _) & _).
  pose proof (skip_all_normal secQ p_skip_question (skip_all_fuel (p_hdr p0) secQ) p1 p_skip_question_spec Hp1 Hv1) as S1.
  destruct (skip_all_fuel_enough (p_hdr p0) secQ (p_idx p1) Hhdr Hi1) as (F1a & F1b).
  rewrite Hh1 in S1. specialize (S1 (fun _ => F1a) F1b).
  destruct (skip_all _ p_skip_question p1) as [p2|e| |]; try contradiction; [|exact I].
  destruct S1 as (Hp2 & Hv2 & Hh2). cbn [bind].
  pose proof Hp2 as (_ & _ & (Hi2 & _) & _).
  pose proof (skip_all_normal secAn _ (skip_all_fuel (p_hdr p0) secAn) p2 (p_skip_resource_spec secAn) Hp2 Hv2) as S2.
  destruct (skip_all_fuel_enough (p_hdr p0) secAn (p_idx p2) Hhdr Hi2) as (F2a & F2b).
  rewrite Hh2 in S2. specialize (S2 (fun _ => F2a) F2b).
  destruct (skip_all _ _ p2) as [p3|e| |]; try contradiction; [|exact I].
  destruct S2 as (Hp3 & Hv3 & Hh3). cbn [bind].
  pose proof Hp3 as (_ & _ & (Hi3 & _) & _).
  pose proof (skip_all_normal secNs _ (skip_all_fuel (p_hdr p0) secNs) p3 (p_skip_resource_spec secNs) Hp3 Hv3) as S3.
  destruct (skip_all_fuel_enough (p_hdr p0) secNs (p_idx p3) Hhdr Hi3) as (F3a & F3b).
  rewrite Hh3 in S3. specialize (S3 (fun _ => F3a) F3b).
  destruct (skip_all _ _ p3) as [p4|e| |]; try contradiction; [|exact I].
  destruct S3 as (Hp4 & Hv4 & Hh4). cbn [bind].
  pose proof Hp4 as (_ & _ & (Hi4 & _) & _).
  apply additional_loop_normal; try assumption.
  - intros _. rewrite Hh4. pose proof (count_range (p_hdr p0) secAr Hhdr).
    unfold additional_fuel. unfold count, secAr in *. cbn [Z.eqb Pos.eqb] in *. lia.
  - unfold additional_fuel. lia.
Qed.

(* ---------- parse reports errors in its boolean, never as Err ---------- *)
Lemma nutter_not_err payload dataoff e : nutter payload dataoff <> Err e.
Proof.
  unfold nutter. destruct (_ || _); [discriminate|].
  destruct (nth_error _ _); [|discriminate]. destruct (_ >? _); discriminate.
Qed.

Lemma apply_opts_not_err os q e : apply_opts os q <> Err e.
Proof.
  revert q; induction os as [|o rest IH]; intros q; cbn [apply_opts]; [discriminate|].
  destruct (o_code o =? 65001); [apply IH|].
  destruct (o_code o =? 8); [|apply IH].
  destruct (len (o_data o) <? 8); [apply IH|].
  destruct (o_data o) as [|a [|fam [|plen r]]]; try discriminate.
  destruct (fam =? 1).
  - pose proof (nutter_not_err (q_payload q) (o_off o)) as Hn.
    destruct (nutter (q_payload q) (o_off o)); cbn [bind]; try discriminate; [apply IH | intros E; eapply Hn; reflexivity].
  - destruct (fam =? 2); [|apply IH].
    pose proof (nutter_not_err (q_payload q) (o_off o)) as Hn.
    destruct (nutter (q_payload q) (o_off o)); cbn [bind]; try discriminate; [apply IH | intros E; eapply Hn; reflexivity].
Qed.

Lemma additional_loop_not_err fuel msg p q e : additional_loop fuel msg p q <> Err e.
Proof.
  revert p q; induction fuel as [|f IH]; intros p q; cbn [additional_loop]; [discriminate|].
  destruct (p_resource_header msg p secAr) as [p1 [h|e'| |]]; try discriminate.
  - destruct (negb (rh_type h =? 41)).
    + destruct (p_skip_resource p1 secAr) as [p2 [u|e'| |]]; try discriminate. apply IH.
    + destruct (p_opt_resource p1) as [os|e'| |]; try discriminate.
      pose proof (apply_opts_not_err os (mkQuery (q_id q) (q_class q) (q_type q) (q_rd q) (rh_class h mod 65536)
                            (q_name q) (q_peer q) (q_mac q) (q_payload q))) as Ha.
      destruct (apply_opts os _); cbn [bind]; try discriminate. intros E; eapply Ha; reflexivity.
  - destruct (e' =? eSectionDone); discriminate.
Qed.

Lemma skip_all_not_err fuel step p e : skip_all fuel step p <> Err e.
Proof.
  revert p; induction fuel as [|f IH]; intros p; cbn [skip_all]; [discriminate|].
  destruct (step p) as [p' [u|e'| |]]; try discriminate. apply IH.
Qed.

Lemma parse_not_err payload e : parse payload <> Err e.
Proof.
  unfold parse.
  destruct (p_start payload) as [p0| | |]; try discriminate.
  destruct (p_question payload p0) as [p1 [[[n t] c]| | |]]; try discriminate.
  pose proof (skip_all_not_err (skip_all_fuel (p_hdr p0) secQ) p_skip_question p1) as N1.
  destruct (skip_all _ p_skip_question p1) as [p2|e1| |]; cbn [bind]; try discriminate;
    [|intros _; eapply N1; reflexivity].
  pose proof (skip_all_not_err (skip_all_fuel (p_hdr p0) secAn) (fun p => p_skip_resource p secAn) p2) as N2.
  destruct (skip_all _ _ p2) as [p3|e2| |]; cbn [bind]; try discriminate;
    [|intros _; eapply N2; reflexivity].
  pose proof (skip_all_not_err (skip_all_fuel (p_hdr p0) secNs) (fun p => p_skip_resource p secNs) p3) as N3.
  destruct (skip_all _ _ p3) as [p4|e3| |]; cbn [bind]; try discriminate;
    [|intros _; eapply N3; reflexivity].
  apply additional_loop_not_err.
Qed.

(* parse always produces a (possibly partially filled) query *)
Theorem parse_total payload : okb payload -> exists q okq, parse payload = Ok (q, okq).
Proof.
  intros Hm. pose proof (parse_normal payload Hm) as N. pose proof (parse_not_err payload) as Ne.
  destruct (parse payload) as [[q okq]|e| |]; try contradiction; [eauto | exfalso; eapply Ne; reflexivity].
Qed.

(* ---------- handle / serve ---------- *)
Theorem handle_total pr payload o :
  okb payload -> exists w, handle pr payload o = Ok w.
Proof.
  intros Hm. unfold handle. destruct (parse_total payload Hm) as (q & okq & E). rewrite E.
  cbn [bind]. destruct pr; eauto.
Qed.

Theorem serve_total pr payload o :
  okb payload ->
  (14 < len payload -> exists w, serve pr payload o = Ok (Reply w)) /\
  (len payload <= 14 -> serve pr payload o = Ok (match pr with UDP => Silence | TCP => CloseConn end)).
Proof.
  intros Hm. unfold serve. split; intros H.
  - destruct (len payload <=? 14) eqn:E; [lia|].
    destruct (handle_total pr payload o Hm) as [w Hw]. rewrite Hw. cbn [bind]. eauto.
  - destruct (len payload <=? 14) eqn:E; [reflexivity|lia].
Qed.

(* the payload handed upstream has the client's length; only address-carrying
   ECS options were touched (stated on nutter above) *)
Theorem upstream_payload_total payload : okb payload -> exists p', upstream_payload payload = Ok p'.
Proof.
  intros Hm. destruct (handle_total UDP payload UpErr Hm) as [w Hw].
  unfold handle in Hw. unfold upstream_payload.
  destruct (parse payload) as [[q okq]| | |]; cbn [bind] in *; try discriminate. eauto.
Qed.

(* ---------- SERVFAIL carries the query's ID (and question) ---------- *)
Lemma servfail_id q : 0 <= q_id q < 65536 ->
  exists a b rest, servfail q = a :: b :: rest /\ u16 a b = q_id q.
Proof.
  intros H. unfold servfail, reply_rcode, pack16.
  assert (u16 ((q_id q / 256) mod 256) (q_id q mod 256) = q_id q).
  { unfold u16. rewrite (Z.mod_small (q_id q / 256)) by (split; [apply Z.div_pos; lia | apply Z.div_lt_upper_bound; lia]).
    pose proof (Z.div_mod (q_id q) 256). lia. }
  destruct (pack_name (q_name q)); cbn [app]; eauto.
Qed.

Lemma servfail_rcode q : exists a b c d rest, servfail q = a :: b :: c :: d :: rest /\ c = 128 /\ d = 2.
Proof.
  unfold servfail, reply_rcode, pack16.
  destruct (pack_name (q_name q)); cbn [app]; do 5 eexists; (split; [reflexivity|]); split; reflexivity.
Qed.
