(* Proofs/EcsParse.v -- C13 for query.parse as a whole: for every client byte string, the payload
   handed to the upstream differs from the client's only inside the address-carrying ECS options
   of the OPT record that parse reached, and each of those (RFC 7871 size: under 256 bytes) is
   inert in it -- code 0xFFFF, data all zero. *)
From NX Require Import Bytes Wire Reply Query ReplyFacts WireFacts QueryFacts CursorFacts EcsWhole.
From Coq Require Import ZifyBool.
Open Scope Z_scope.

Definition pinv2 (msg : bytes) (p : parser) : Prop := cur_ok msg (p_cur p) /\ 0 <= rh_len (p_rh p).

Lemma cur_ok_okc msg c : okb msg -> cur_ok msg c -> okc c.
Proof. intros Hm [_ Hs]. unfold okc. rewrite Hs. apply okb_dropz. exact Hm. Qed.

Lemma unpack_header_pos msg h c : unpack_header msg = Ok (h, c) -> cur_ok msg c.
Proof.
  intros H. unfold unpack_header in H.
  assert (H0 : cur_ok msg (0, msg)) by (split; [cbn; lia|reflexivity]).
  repeat match type of H with
  | bind (get16 ?c) _ = Ok _ =>
    let v := fresh "v" in let c' := fresh "c" in let E := fresh "E" in
    destruct (get16 c) as [[v c']| | |] eqn:E; cbn [bind] in H; try discriminate;
    match goal with Hc : cur_ok msg c |- _ => destruct (get16_pos msg c v c' Hc E) as (? & _) end
  end.
  injection H as _ <-. assumption.
Qed.

Lemma p_start_pos msg p : p_start msg = Ok p -> pinv2 msg p.
Proof.
  intros H. unfold p_start in H. destruct (unpack_header msg) as [[h c]| | |] eqn:E; cbn [bind] in H; try discriminate.
  injection H as <-. split; cbn; [apply (unpack_header_pos msg h c E)|lia].
Qed.

Lemma check_advance_cur p sec p1 r : check_advance p sec = (p1, r) -> p_cur p1 = p_cur p /\ p_rh p1 = p_rh p.
Proof.
  unfold check_advance. destruct (p_sec p <? sec); [intros H; injection H as <- _; split; reflexivity|].
  destruct (p_sec p >? sec); [intros H; injection H as <- _; split; reflexivity|].
  destruct (p_idx p =? count (p_hdr p) sec); intros H; injection H as <- _; split; reflexivity.
Qed.

Definition reader_ok (msg : bytes) (reader : cur -> res cur) : Prop :=
  forall c c', cur_ok msg c -> reader c = Ok c' -> cur_ok msg c'.

Lemma generic_skip_pos msg reader p sec p1 r :
  reader_ok msg reader -> pinv2 msg p -> generic_skip reader p sec = (p1, r) -> pinv2 msg p1.
Proof.
  intros Hr [Hc Hl] H. unfold generic_skip in H. destruct (check_advance p sec) as [pa [e|]] eqn:E;
    destruct (check_advance_cur _ _ _ _ E) as [Ec Erh].
  - injection H as <- _. split; [rewrite Ec; exact Hc|rewrite Erh; exact Hl].
  - unfold lift in H. destruct (reader (p_cur pa)) as [c| | |] eqn:Er; injection H as <- _;
      try (split; [rewrite Ec; exact Hc|rewrite Erh; exact Hl]).
    split; cbn [p_cur p_rh set_cur]; [apply (Hr (p_cur pa)); [rewrite Ec; exact Hc|exact Er]|rewrite Erh; exact Hl].
Qed.

Lemma skip_question_body_pos msg : reader_ok msg skip_question_body.
Proof.
  intros c c' Hc H. unfold skip_question_body in H.
  destruct (skip_name c) as [c1| | |] eqn:E1; cbn [bind] in H; try discriminate.
  pose proof (skip_name_pos msg c c1 Hc E1) as H1.
  destruct (get16 c1) as [[v2 c2]| | |] eqn:E2; cbn [bind] in H; try discriminate.
  destruct (get16_pos msg c1 v2 c2 H1 E2) as (H2 & _).
  destruct (get16 c2) as [[v3 c3]| | |] eqn:E3; cbn [bind] in H; try discriminate.
  destruct (get16_pos msg c2 v3 c3 H2 E3) as (H3 & _). injection H as <-. exact H3.
Qed.

Lemma skip_resource_pos msg : okb msg -> reader_ok msg skip_resource.
Proof.
  intros Hm c c' Hc H. unfold skip_resource in H.
  destruct (skip_name c) as [c1| | |] eqn:E1; cbn [bind] in H; try discriminate.
  pose proof (skip_name_pos msg c c1 Hc E1) as H1.
  destruct (get16 c1) as [[v2 c2]| | |] eqn:E2; cbn [bind] in H; try discriminate.
  destruct (get16_pos msg c1 v2 c2 H1 E2) as (H2 & _).
  destruct (get16 c2) as [[v3 c3]| | |] eqn:E3; cbn [bind] in H; try discriminate.
  destruct (get16_pos msg c2 v3 c3 H2 E3) as (H3 & _).
  destruct (get32 c3) as [[v4 c4]| | |] eqn:E4; cbn [bind] in H; try discriminate.
  destruct (get32_pos msg c3 v4 c4 H3 E4) as (H4 & _).
  destruct (get16 c4) as [[l c5]| | |] eqn:E5; cbn [bind] in H; try discriminate.
  destruct (get16_pos msg c4 l c5 H4 E5) as (H5 & _).
  destruct (get16_ok c4 l c5 (cur_ok_okc msg c4 Hm H4) E5) as [_ Hl].
  destruct (advance l c5) as [c6|] eqn:E6; [|discriminate]. injection H as <-.
  apply (advance_pos msg l c5 c6); [lia|exact H5|exact E6].
Qed.

Lemma p_skip_question_pos msg p p1 r : pinv2 msg p -> p_skip_question p = (p1, r) -> pinv2 msg p1.
Proof. intros Hp H. apply (generic_skip_pos msg _ _ _ _ _ (skip_question_body_pos msg) Hp H). Qed.

Lemma p_skip_resource_pos msg p sec p1 r : okb msg -> pinv2 msg p -> p_skip_resource p sec = (p1, r) -> pinv2 msg p1.
Proof.
  intros Hm [Hc Hl] H. unfold p_skip_resource in H. destruct (p_hv p).
  - destruct (advance (rh_len (p_rh p)) (p_cur p)) as [c|] eqn:E; injection H as <- _; [|split; assumption].
    split; cbn [p_cur p_rh set_cur]; [apply (advance_pos msg _ _ _ Hl Hc E)|exact Hl].
  - apply (generic_skip_pos msg _ _ _ _ _ (skip_resource_pos msg Hm) (conj Hc Hl) H).
Qed.

Lemma skip_all_pos msg step : (forall p p1 r, pinv2 msg p -> step p = (p1, r) -> pinv2 msg p1) ->
  forall fuel p p', pinv2 msg p -> skip_all fuel step p = Ok p' -> pinv2 msg p'.
Proof.
  intros Hstep. induction fuel as [|f IH]; intros p p' Hp H; cbn [skip_all] in H; [discriminate|].
  destruct (step p) as [p1 [u|e| |]] eqn:E; try discriminate.
  - apply (IH p1 p'); [apply (Hstep _ _ _ Hp E)|exact H].
  - injection H as <-. apply (Hstep _ _ _ Hp E).
Qed.

Lemma p_question_pos msg p p1 r : okb msg -> pinv2 msg p -> p_question msg p = (p1, r) -> pinv2 msg p1.
Proof.
  intros Hm [Hc Hl] H. unfold p_question in H. destruct (check_advance p secQ) as [pa [e|]] eqn:E;
    destruct (check_advance_cur _ _ _ _ E) as [Ec Erh].
  - injection H as <- _. split; [rewrite Ec; exact Hc|rewrite Erh; exact Hl].
  - unfold lift in H.
    destruct (unpack_name msg (p_cur pa)) as [[name c1]| | |] eqn:E1; cbn [bind] in H;
      try (injection H as <- _; split; [rewrite Ec; exact Hc|rewrite Erh; exact Hl]).
    assert (Hca : cur_ok msg (p_cur pa)) by (rewrite Ec; exact Hc).
    assert (H1 : cur_ok msg c1) by (apply (unpack_name_pos msg _ _ _ Hm Hca E1)).
    destruct (get16 c1) as [[typ c2]| | |] eqn:E2; cbn [bind] in H;
      try (injection H as <- _; split; [rewrite Ec; exact Hc|rewrite Erh; exact Hl]).
    destruct (get16_pos msg c1 typ c2 H1 E2) as (H2 & _).
    destruct (get16 c2) as [[cls c3]| | |] eqn:E3; cbn [bind] in H;
      try (injection H as <- _; split; [rewrite Ec; exact Hc|rewrite Erh; exact Hl]).
    destruct (get16_pos msg c2 cls c3 H2 E3) as (H3 & _).
    injection H as <- _. split; cbn [p_cur p_rh set_cur]; [exact H3|rewrite Erh; exact Hl].
Qed.

Lemma unpack_rheader_pos msg c h c' : okb msg -> cur_ok msg c -> unpack_rheader msg c = Ok (h, c') ->
  cur_ok msg c' /\ 0 <= rh_len h.
Proof.
  intros Hm Hc H. unfold unpack_rheader in H.
  destruct (unpack_name msg c) as [[name c1]| | |] eqn:E1; cbn [bind] in H; try discriminate.
  pose proof (unpack_name_pos msg _ _ _ Hm Hc E1) as H1.
  destruct (get16 c1) as [[typ c2]| | |] eqn:E2; cbn [bind] in H; try discriminate.
  destruct (get16_pos msg c1 typ c2 H1 E2) as (H2 & _).
  destruct (get16 c2) as [[cls c3]| | |] eqn:E3; cbn [bind] in H; try discriminate.
  destruct (get16_pos msg c2 cls c3 H2 E3) as (H3 & _).
  destruct (get32 c3) as [[ttl c4]| | |] eqn:E4; cbn [bind] in H; try discriminate.
  destruct (get32_pos msg c3 ttl c4 H3 E4) as (H4 & _).
  destruct (get16 c4) as [[l c5]| | |] eqn:E5; cbn [bind] in H; try discriminate.
  destruct (get16_pos msg c4 l c5 H4 E5) as (H5 & _).
  destruct (get16_ok c4 l c5 (cur_ok_okc msg c4 Hm H4) E5) as [_ Hl].
  injection H as <- <-. split; [exact H5|cbn; lia].
Qed.

Lemma p_resource_header_pos msg p sec p1 r : okb msg -> pinv2 msg p -> p_resource_header msg p sec = (p1, r) -> pinv2 msg p1.
Proof.
  intros Hm [Hc Hl] H. unfold p_resource_header in H. destruct (p_hv p); [injection H as <- _; split; assumption|].
  destruct (check_advance p sec) as [pa [e|]] eqn:E; destruct (check_advance_cur _ _ _ _ E) as [Ec Erh].
  - injection H as <- _. split; [rewrite Ec; exact Hc|rewrite Erh; exact Hl].
  - unfold lift in H. destruct (unpack_rheader msg (p_cur pa)) as [[h c]| | |] eqn:E1;
      try (injection H as <- _; split; [rewrite Ec; exact Hc|rewrite Erh; exact Hl]).
    assert (Hca : cur_ok msg (p_cur pa)) by (rewrite Ec; exact Hc).
    destruct (unpack_rheader_pos msg _ _ _ Hm Hca E1) as [H1 H2].
    injection H as <- _. split; cbn [p_cur p_rh set_cur]; assumption.
Qed.

(* ---- the OPT reader records positions of the message ---- *)
Lemma okb_nth (l : bytes) i : okb l -> 0 <= nth i l 0 < 256.
Proof.
  intros H. destruct (Nat.lt_ge_cases i (length l)) as [Hi|Hi].
  - unfold okb in H. rewrite Forall_forall in H. apply H. apply nth_In. exact Hi.
  - rewrite nth_overflow by exact Hi. lia.
Qed.

Lemma unpack_opts_layout msg : okb msg -> forall fuel c left acc os,
  cur_ok msg c -> unpack_opts fuel c left acc = Ok os ->
  exists new, os = acc ++ new /\ seq_ok msg (fst c) new.
Proof.
  intros Hm. induction fuel as [|f IH]; intros c left acc os Hc H; cbn [unpack_opts] in H; [discriminate|].
  destruct (0 <? left); [|injection H as <-; exists []; split; [symmetry; apply app_nil_r|exact I]].
  destruct (get16 c) as [[code c1]| | |] eqn:E1; cbn [bind] in H; try discriminate.
  destruct (get16_pos msg c code c1 Hc E1) as (H1 & F1 & _ & _).
  destruct (get16 c1) as [[l c2]| | |] eqn:E2; cbn [bind] in H; try discriminate.
  destruct (get16_pos msg c1 l c2 H1 E2) as (H2 & F2 & B2 & V2).
  destruct (get16_ok c1 l c2 (cur_ok_okc msg c1 Hm H1) E2) as [_ Hl].
  destruct (take_exact (Z.to_nat l) (snd c2)) as [d|] eqn:Et; [|discriminate].
  destruct (advance l c2) as [c3|] eqn:Ea; [|discriminate].
  destruct (take_exact_firstn _ _ _ Et) as (Ed & Ld & Bd).
  destruct (advance_pos msg l c2 c3 ltac:(lia) H2 Ea) as (H3 & F3).
  destruct (IH c3 _ _ _ H3 H) as (new & -> & Hseq).
  exists (mkOpt code d (fst c2) :: new). split; [rewrite <- app_assoc; reflexivity|].
  assert (Hlen : len d = l) by (unfold len; lia).
  cbn [seq_ok o_off o_data]. rewrite Hlen. split; [lia|]. split.
  - destruct H2 as [_ Hs2]. rewrite Hs2 in Bd. unfold dropz in Bd. rewrite skipn_length in Bd. unfold len in *. lia.
  - split; [|rewrite <- F3; exact Hseq].
    intros Hshort. replace (fst c2 - 1) with (fst c1 + 1) by lia. unfold u16 in V2.
    pose proof (okb_nth msg (Z.to_nat (fst c1)) Hm). pose proof (okb_nth msg (Z.to_nat (fst c1 + 1)) Hm). lia.
Qed.

Lemma p_opt_resource_layout msg p os : okb msg -> pinv2 msg p -> p_opt_resource p = Ok os -> seq_ok msg (fst (p_cur p)) os.
Proof.
  intros Hm [Hc _] H. unfold p_opt_resource in H. destruct (negb (p_hv p) || negb (rh_type (p_rh p) =? 41)); [discriminate|].
  destruct (unpack_opts_layout msg Hm _ _ _ _ _ Hc H) as (new & -> & Hs). exact Hs.
Qed.

(* ---- the statement on one payload ---- *)
Definition scrub_facts (msg : bytes) (os : list option_) (p' : bytes) : Prop :=
  len p' = len msg /\
  ((forall o, In o os -> is_addr_ecs o = true -> len (o_data o) < 256) ->
   (forall o, In o os -> is_addr_ecs o = true -> scrubbed p' o) /\
   (forall j, outside os j -> nth j p' 0 = nth j msg 0)).

Lemma scrub_facts_nil msg : scrub_facts msg [] msg.
Proof. split; [reflexivity|]. intros _. split; [intros o []|reflexivity]. Qed.

Lemma additional_loop_scrubs msg : okb msg -> forall fuel p q q' okq,
  pinv2 msg p -> q_payload q = msg -> additional_loop fuel msg p q = Ok (q', okq) ->
  exists os, find_opts_loop fuel msg p = Ok os /\ scrub_facts msg os (q_payload q').
Proof.
  intros Hm. induction fuel as [|f IH]; intros p q q' okq Hp Hq H; cbn [additional_loop] in H; [discriminate|].
  cbn [find_opts_loop].
  destruct (p_resource_header msg p secAr) as [p1 [h|e| |]] eqn:E1; try discriminate.
  - pose proof (p_resource_header_pos msg _ _ _ _ Hm Hp E1) as Hp1.
    destruct (negb (rh_type h =? 41)).
    + destruct (p_skip_resource p1 secAr) as [p2 [u|e| |]] eqn:E2; try discriminate.
      * apply (IH p2 q q' okq); [apply (p_skip_resource_pos msg _ _ _ _ Hm Hp1 E2)|exact Hq|exact H].
      * injection H as <- _. exists []. split; [reflexivity|]. rewrite Hq. apply scrub_facts_nil.
    + destruct (p_opt_resource p1) as [os|e| |] eqn:E2; try discriminate.
      * exists os. split; [reflexivity|].
        set (q1 := mkQuery _ _ _ _ _ _ _ _ _) in H.
        destruct (apply_opts os q1) as [q2| | |] eqn:Ea; cbn [bind] in H; try discriminate.
        injection H as <- _.
        assert (Hq1 : q_payload q1 = msg) by exact Hq.
        pose proof (p_opt_resource_layout msg p1 os Hm Hp1 E2) as Hseq.
        split; [rewrite (apply_opts_len _ _ _ Ea), Hq1; reflexivity|].
        intros Hshort.
        destruct (apply_opts_whole os q1 q2 (fst (p_cur p1))) as (A & B & _);
          [rewrite Hq1; exact Hm|apply Hp1|rewrite Hq1; exact Hseq|exact Hshort|exact Ea|].
        rewrite Hq1 in B. split; assumption.
      * injection H as <- _. exists []. split; [reflexivity|]. rewrite Hq. apply scrub_facts_nil.
  - exists []. split; [reflexivity|].
    destruct (e =? eSectionDone); injection H as <- _; rewrite Hq; apply scrub_facts_nil.
Qed.

Theorem parse_scrubs payload q okq : okb payload -> parse payload = Ok (q, okq) ->
  exists os, find_opts payload = Ok os /\ scrub_facts payload os (q_payload q).
Proof.
  intros Hm H. unfold parse in H. unfold find_opts.
  destruct (p_start payload) as [p0|e| |] eqn:E0; try discriminate;
    [|injection H as <- _; exists []; split; [reflexivity|apply scrub_facts_nil]].
  pose proof (p_start_pos payload p0 E0) as Hp0.
  destruct (p_question payload p0) as [p1 [[[name typ] cls]|e| |]] eqn:E1; try discriminate;
    [|injection H as <- _; exists []; split; [reflexivity|apply scrub_facts_nil]].
  pose proof (p_question_pos payload _ _ _ Hm Hp0 E1) as Hp1.
  destruct (skip_all (skip_all_fuel (p_hdr p0) secQ) p_skip_question p1) as [p2| | |] eqn:E2; cbn [bind] in H |- *; try discriminate.
  assert (Hp2 : pinv2 payload p2).
  { apply (skip_all_pos payload p_skip_question (fun p pa r Hp Hs => p_skip_question_pos payload p pa r Hp Hs) _ _ _ Hp1 E2). }
  destruct (skip_all (skip_all_fuel (p_hdr p0) secAn) (fun p => p_skip_resource p secAn) p2) as [p3| | |] eqn:E3; cbn [bind] in H |- *; try discriminate.
  assert (Hp3 : pinv2 payload p3).
  { apply (skip_all_pos payload _ (fun p pa r Hp Hs => p_skip_resource_pos payload p secAn pa r Hm Hp Hs) _ _ _ Hp2 E3). }
  destruct (skip_all (skip_all_fuel (p_hdr p0) secNs) (fun p => p_skip_resource p secNs) p3) as [p4| | |] eqn:E4; cbn [bind] in H |- *; try discriminate.
  assert (Hp4 : pinv2 payload p4).
  { apply (skip_all_pos payload _ (fun p pa r Hp Hs => p_skip_resource_pos payload p secNs pa r Hm Hp Hs) _ _ _ Hp3 E4). }
  eapply (additional_loop_scrubs payload Hm); [exact Hp4| |exact H]. reflexivity.
Qed.

(* in the words of the property, on what the upstream receives *)
Theorem upstream_payload_scrubbed payload up : okb payload -> upstream_payload payload = Ok up ->
  exists os, find_opts payload = Ok os /\ scrub_facts payload os up.
Proof.
  intros Hm H. unfold upstream_payload in H. destruct (parse payload) as [[q okq]| | |] eqn:E; cbn [bind] in H; try discriminate.
  injection H as <-. apply (parse_scrubs payload q okq Hm E).
Qed.
