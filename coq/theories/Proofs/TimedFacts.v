From NX Require Import Bytes Timed.
From Coq Require Import ZifyBool.
Open Scope Z_scope.

Lemma dns_wait_bound id events deadline now :
  now <= deadline -> now <= fst (dns_wait id events deadline now) <= deadline.
Proof.
  revert now; induction events as [|[t d] r IH]; intros now H; cbn [dns_wait fst]; [lia|].
  destruct (t >? deadline) eqn:E; cbn [fst]; [lia|].
  destruct (dg_matches id d); cbn [fst]; [lia|].
  specialize (IH (Z.max now t)). lia.
Qed.

(* the accepted datagram is the first matching one among those arriving by the
   deadline; none accepted iff there is no such datagram *)
Fixpoint first_in_time (id : Z) (events : list (Z * bytes)) (deadline : Z) : option bytes :=
  match events with
  | [] => None
  | (t, d) :: r => if t >? deadline then None
                   else if dg_matches id d then Some d else first_in_time id r deadline
  end.
Lemma dns_wait_result id events deadline now :
  snd (dns_wait id events deadline now) = first_in_time id events deadline.
Proof.
  revert now; induction events as [|[t d] r IH]; intros now; cbn [dns_wait first_in_time snd]; [reflexivity|].
  destruct (t >? deadline); [reflexivity|]. destruct (dg_matches id d); [reflexivity|]. apply IH.
Qed.

Lemma doh_exchange_bound s start deadline :
  start <= deadline -> start <= fst (doh_exchange s start deadline) <= deadline.
Proof.
  intros H. destruct s as [t|e|th status chunks e]; cbn [doh_exchange].
  - cbn [fst]. lia.
  - cbn [fst]. destruct e; cbn [end_time]; lia.
  - destruct (th >? deadline) eqn:E1; cbn [fst]; [lia|].
    destruct (negb (status =? 200)); cbn [fst]; [lia|].
    destruct e as [t|t|]; [destruct (t <=? deadline) eqn:E2|..]; cbn [fst]; lia.
Qed.

(* a complete message is delivered exactly when status 200 headers and the end
   of the body arrived by the deadline; it then consists of all chunks sent *)
Lemma doh_exchange_complete s start deadline b :
  snd (doh_exchange s start deadline) = Complete b <->
  exists th chunks t, s = Response th 200 chunks (EOF_at t) /\ th <= deadline /\ t <= deadline /\ b = body_until chunks t.
Proof.
  split.
  - destruct s as [t|e|th status chunks e]; cbn [doh_exchange]; try (cbn; discriminate).
    destruct (th >? deadline) eqn:E1; [cbn; discriminate|].
    destruct (status =? 200) eqn:Es; cbn [negb]; [|cbn; discriminate].
    destruct e as [t|t|]; [|cbn; discriminate..].
    destruct (t <=? deadline) eqn:E2; cbn [snd]; [|discriminate].
    intros Hc; inversion Hc; subst. exists th, chunks, t. repeat split; try lia.
    f_equal. lia.
  - intros (th & chunks & t & -> & H1 & H2 & ->). cbn [doh_exchange].
    destruct (th >? deadline) eqn:E1; [lia|]. cbn [Z.eqb Pos.eqb negb].
    destruct (t <=? deadline) eqn:E2; [reflexivity|lia].
Qed.
