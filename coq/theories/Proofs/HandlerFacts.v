(* Proofs/HandlerFacts.v -- inflight capacity is bounded and always given back;
   pooled buffers are never shared between threads. *)
From NX Require Import Bytes Handler.
From Coq Require Import ZifyBool.
Open Scope Z_scope.

Definition occ (b : nat) (l : list nat) : nat := count_occ Nat.eq_dec l b.

Lemma occ_app b l1 l2 : occ b (l1 ++ l2) = (occ b l1 + occ b l2)%nat.
Proof. apply count_occ_app. Qed.
Lemma occ_cons b x l : occ b (x :: l) = ((if Nat.eq_dec x b then 1 else 0) + occ b l)%nat.
Proof. unfold occ. cbn. destruct (Nat.eq_dec x b); reflexivity. Qed.
Lemma occ_nil b : occ b [] = 0%nat. Proof. reflexivity. Qed.

Lemma updl_length {A} i (x : A) l : length (updl i x l) = length l.
Proof. revert i; induction l as [|h t IH]; intros [|i]; cbn [updl length]; try reflexivity. rewrite IH; reflexivity. Qed.

Lemma count_updl {A} (f : A -> nat) i x l y :
  nth_error l i = Some y -> (count f (updl i x l) + f y = count f l + f x)%nat.
Proof.
  revert i; induction l as [|h t IH]; intros i H.
  - destruct i; discriminate.
  - destruct i as [|i]; cbn [nth_error updl count fold_right] in *.
    + inversion H; subst. lia.
    + specialize (IH i H). unfold count in IH. lia.
Qed.
Lemma count_app {A} (f : A -> nat) l1 l2 : count f (l1 ++ l2) = (count f l1 + count f l2)%nat.
Proof. induction l1 as [|h t IH]; cbn [app count fold_right]; [reflexivity|]. unfold count in *. rewrite IH. lia. Qed.

Lemma occ_flat_updl {A} (f : A -> list nat) b i x l y :
  nth_error l i = Some y ->
  (occ b (flat_map f (updl i x l)) + occ b (f y) = occ b (flat_map f l) + occ b (f x))%nat.
Proof.
  revert i; induction l as [|h t IH]; intros i H.
  - destruct i; discriminate.
  - destruct i as [|i]; cbn [nth_error updl flat_map] in *; rewrite !occ_app.
    + inversion H; subst. lia.
    + specialize (IH i H). lia.
Qed.
Lemma occ_flat_app {A} (f : A -> list nat) b l1 l2 :
  occ b (flat_map f (l1 ++ l2)) = (occ b (flat_map f l1) + occ b (flat_map f l2))%nat.
Proof. rewrite flat_map_app. apply occ_app. Qed.

(* ---------- the invariant ---------- *)
Definition in_use (s : hstate) (b : nat) : nat := (occ b (free s) + occ b (owned s))%nat.

Record hinv (s : hstate) : Prop := mkHinv {
  i_tokens : tokens s = (count r_holds (readers s) + count h_live (handlers s))%nat;
  i_cap : (tokens s <= cap s)%nat;
  i_uniq : forall b, (in_use s b <= 1)%nat;
  i_fresh : forall b, (next s <= b)%nat -> in_use s b = 0%nat;
  i_writes : forall j h, nth_error (handlers s) j = Some h -> (hwrites h <= 1)%nat /\
             (match hpc h with HStart | HGot _ | HResolved _ false => hwrites h = 0%nat | _ => True end)
}.

Lemma init_in_use k rs b : in_use (hinit k rs) b = 0%nat.
Proof.
  unfold in_use, owned, hinit; cbn [free readers handlers flat_map]. rewrite app_nil_r, occ_nil.
  induction rs as [|a rs IH]; cbn [map flat_map r_bufs rpc app]; [reflexivity | exact IH].
Qed.

Lemma hinv_init k rs : hinv (hinit k rs).
Proof.
  constructor; cbn [hinit tokens cap readers handlers free next].
  - induction rs as [|a rs IH]; cbn [map count fold_right r_holds rpc]; [reflexivity | unfold count in *; cbn in *; lia].
  - lia.
  - intros b. rewrite (init_in_use k rs b). lia.
  - intros b _. apply init_in_use.
  - intros j h H. destruct j; discriminate.
Qed.

(* pool_get hands out a buffer that nobody holds *)
Lemma pool_get_spec s b f nx :
  hinv s -> pool_get s = (b, f, nx) ->
  (forall x, (occ x f + (if Nat.eq_dec b x then 1 else 0) + occ x (owned s) <= 1)%nat) /\
  (forall x, (nx <= x)%nat -> (occ x f + (if Nat.eq_dec b x then 1 else 0) + occ x (owned s) = 0)%nat) /\
  (forall x, (occ x f + (if Nat.eq_dec b x then 1 else 0) <= occ x (free s) + (if Nat.eq_dec (next s) x then 1 else 0))%nat).
Proof.
  intros Hi Hp. unfold pool_get in Hp. pose proof (i_uniq s Hi) as Hu. pose proof (i_fresh s Hi) as Hf.
  unfold in_use in *. destruct (free s) as [|b0 f0] eqn:Ef; injection Hp as <- <- <-.
  - split; [|split]; intros x.
    + specialize (Hu x). rewrite occ_nil in *. destruct (Nat.eq_dec (next s) x) as [E|Hne]; [|lia].
      subst x. specialize (Hf (next s) (Nat.le_refl _)). lia.
    + intros Hx. rewrite occ_nil. destruct (Nat.eq_dec (next s) x) as [E|Hne]; [lia|].
      specialize (Hf x). rewrite occ_nil in Hf. lia.
    + rewrite occ_nil. lia.
  - split; [|split]; intros x.
    + specialize (Hu x). rewrite occ_cons in Hu. lia.
    + intros Hx. specialize (Hf x Hx). rewrite occ_cons in Hf. lia.
    + rewrite occ_cons. lia.
Qed.

Lemma nth_error_updl_same {A} i (x : A) l y : nth_error l i = Some y -> nth_error (updl i x l) i = Some x.
Proof. revert i; induction l as [|h t IH]; intros [|i] H; cbn in *; try discriminate; [reflexivity | apply IH; exact H]. Qed.
Lemma nth_error_updl_other {A} i j (x : A) l : i <> j -> nth_error (updl i x l) j = nth_error l j.
Proof.
  revert i j; induction l as [|h t IH]; intros [|i] [|j] H; cbn; try reflexivity; try congruence.
  apply IH. congruence.
Qed.

Lemma writes_updl s j h h' :
  (forall j0 h0, nth_error (handlers s) j0 = Some h0 -> (hwrites h0 <= 1)%nat /\
     (match hpc h0 with HStart | HGot _ | HResolved _ false => hwrites h0 = 0%nat | _ => True end)) ->
  nth_error (handlers s) j = Some h ->
  ((hwrites h' <= 1)%nat /\ (match hpc h' with HStart | HGot _ | HResolved _ false => hwrites h' = 0%nat | _ => True end)) ->
  forall j0 h0, nth_error (updl j h' (handlers s)) j0 = Some h0 -> (hwrites h0 <= 1)%nat /\
     (match hpc h0 with HStart | HGot _ | HResolved _ false => hwrites h0 = 0%nat | _ => True end).
Proof.
  intros Hall Hn Hh' j0 h0 H0. destruct (Nat.eq_dec j j0) as [->|Hne].
  - rewrite (nth_error_updl_same _ _ _ _ Hn) in H0. inversion H0; subst. exact Hh'.
  - rewrite nth_error_updl_other in H0 by exact Hne. eapply Hall; exact H0.
Qed.

Ltac occ_simpl :=
  rewrite ?occ_app in *; rewrite ?occ_flat_app in *; cbn [flat_map h_bufs r_bufs hpc hq rpc app] in *;
  rewrite ?occ_app in *; rewrite ?occ_cons in *; rewrite ?occ_nil in *.

(* facts about the one reader / handler a step rewrites *)
Ltac with_reader Hn k :=
  match type of Hn with nth_error (readers ?s) ?i = Some ?old =>
    match goal with |- context [updl i ?new (readers s)] =>
      let Hcnt := fresh "Hcnt" in let Hocc := fresh "Hocc" in
      pose proof (count_updl r_holds i new (readers s) old Hn) as Hcnt;
      pose proof (fun b => occ_flat_updl r_bufs b i new (readers s) old Hn) as Hocc;
      cbn [r_holds r_bufs rpc] in Hcnt, Hocc; k Hocc
    end end.
Ltac with_handler Hn k :=
  match type of Hn with nth_error (handlers ?s) ?j = Some ?old =>
    match goal with |- context [updl j ?new (handlers s)] =>
      let Hcnt := fresh "Hcnt" in let Hocc := fresh "Hocc" in
      pose proof (count_updl h_live j new (handlers s) old Hn) as Hcnt;
      pose proof (fun b => occ_flat_updl h_bufs b j new (handlers s) old Hn) as Hocc;
      cbn [h_live h_bufs hpc hq] in Hcnt, Hocc; k Hocc
    end end.

Ltac fin_reader Hn Hu Hf :=
  first
  [ lia
  | solve [with_reader Hn ltac:(fun Hocc => rewrite ?count_app; cbn [count fold_right h_live hpc]; lia)]
  | solve [let x := fresh "x" in intros x; with_reader Hn ltac:(fun Hocc => specialize (Hocc x); specialize (Hu x); occ_simpl; lia)]
  | solve [let x := fresh "x" in let Hx := fresh "Hx" in intros x Hx; with_reader Hn ltac:(fun Hocc => specialize (Hocc x); specialize (Hf x Hx); occ_simpl; lia)] ].
Ltac fin_handler Hn Hu Hf :=
  first
  [ lia
  | solve [with_handler Hn ltac:(fun Hocc => lia)]
  | solve [let x := fresh "x" in intros x; with_handler Hn ltac:(fun Hocc => specialize (Hocc x); specialize (Hu x); occ_simpl; lia)]
  | solve [let x := fresh "x" in let Hx := fresh "Hx" in intros x Hx; with_handler Hn ltac:(fun Hocc => specialize (Hocc x); specialize (Hf x Hx); occ_simpl; lia)] ].

Theorem hstep_inv s l s' : hinv s -> hstep s l = Some s' -> hinv s'.
Proof.
  intros Hi Hs. pose proof Hi as [Ht Hc Hu Hf Hw]. unfold in_use, owned in *.
  destruct l as [i|i|i r|j|j e|j|j|]; cbn [hstep] in Hs.
  - (* RAcquire *)
    destruct (nth_error (readers s) i) as [[k pc]|] eqn:Hn; [|discriminate]. destruct pc; try discriminate.
    destruct (Nat.ltb_spec (tokens s) (cap s)) as [Hlt|Hge]; [|discriminate]. inversion Hs; subst; clear Hs.
    constructor; unfold in_use, owned; cbn [tokens cap free next readers handlers]; try assumption;
      fin_reader Hn Hu Hf.
  - (* RGet *)
    destruct (nth_error (readers s) i) as [[k pc]|] eqn:Hn; [|discriminate]. destruct pc; try discriminate.
    destruct (pool_get s) as [[b f] nx] eqn:Hp. inversion Hs; subst; clear Hs.
    destruct (pool_get_spec _ _ _ _ Hi Hp) as (P1 & P2 & P3). unfold owned in P1, P2.
    constructor; unfold in_use, owned; cbn [tokens cap free next readers handlers]; try assumption;
      fin_reader Hn P1 P2.
  - (* RRead *)
    destruct (nth_error (readers s) i) as [[k pc]|] eqn:Hn; [|discriminate]. destruct pc as [| |b0|]; try discriminate.
    assert (Hpos : (1 <= tokens s)%nat).
    { pose proof (count_updl r_holds i (mkR k RIdle) (readers s) _ Hn) as Hx. cbn [r_holds rpc] in Hx. lia. }
    destruct r, k; try discriminate; inversion Hs; subst; clear Hs;
      constructor; unfold in_use, owned; cbn [tokens cap free next readers handlers]; try assumption;
      try fin_reader Hn Hu Hf.
    all: intros j0 h0 H0; destruct (Nat.lt_ge_cases j0 (length (handlers s))) as [Hlt|Hge];
      [rewrite nth_error_app1 in H0 by exact Hlt; eapply Hw; exact H0 |
       rewrite nth_error_app2 in H0 by exact Hge; destruct (j0 - length (handlers s))%nat as [|[|?]]; cbn in H0; inversion H0; subst; cbn; auto].
  - (* HGetR *)
    destruct (nth_error (handlers s) j) as [[c q pc w]|] eqn:Hn; [|discriminate]. destruct pc; try discriminate.
    destruct (pool_get s) as [[b f] nx] eqn:Hp. inversion Hs; subst; clear Hs.
    destruct (pool_get_spec _ _ _ _ Hi Hp) as (P1 & P2 & P3). unfold owned in P1, P2.
    constructor; unfold in_use, owned; cbn [tokens cap free next readers handlers]; try assumption;
      try fin_handler Hn P1 P2.
    eapply writes_updl; [exact Hw | exact Hn|]. destruct (Hw _ _ Hn) as [A B]. cbn [hpc hwrites] in *. auto.
  - (* HResolve *)
    destruct (nth_error (handlers s) j) as [[c q pc w]|] eqn:Hn; [|discriminate]. destruct pc as [|rb| |]; try discriminate.
    inversion Hs; subst; clear Hs.
    constructor; unfold in_use, owned; cbn [tokens cap free next readers handlers]; try assumption;
      try fin_handler Hn Hu Hf.
    eapply writes_updl; [exact Hw | exact Hn|]. destruct (Hw _ _ Hn) as [A B]. cbn [hpc hwrites] in *.
    destruct e; cbn; split; try lia; auto.
  - (* HWrite *)
    destruct (nth_error (handlers s) j) as [[c q pc w]|] eqn:Hn; [|discriminate]. destruct pc as [| |rb wr|]; try discriminate.
    destruct wr; try discriminate. inversion Hs; subst; clear Hs.
    constructor; unfold in_use, owned; cbn [tokens cap free next readers handlers]; try assumption;
      try fin_handler Hn Hu Hf.
    eapply writes_updl; [exact Hw | exact Hn|]. destruct (Hw _ _ Hn) as [A B]. cbn [hpc hwrites] in *. split; [lia | exact I].
  - (* HFinish *)
    destruct (nth_error (handlers s) j) as [[c q pc w]|] eqn:Hn; [|discriminate]. destruct pc as [| |rb wr|]; try discriminate.
    destruct wr; try discriminate. inversion Hs; subst; clear Hs.
    assert (Hpos : (1 <= tokens s)%nat).
    { pose proof (count_updl h_live j (mkHt c q HDone w) (handlers s) _ Hn) as Hx. cbn [h_live hpc] in Hx. lia. }
    constructor; unfold in_use, owned; cbn [tokens cap free next readers handlers]; try assumption;
      try fin_handler Hn Hu Hf.
    eapply writes_updl; [exact Hw | exact Hn|]. destruct (Hw _ _ Hn) as [A B]. cbn [hpc hwrites] in *. split; [lia | exact I].
  - (* PoolDrop *)
    destruct (free s) as [|b0 f] eqn:Ef; [discriminate|]. inversion Hs; subst; clear Hs.
    constructor; unfold in_use, owned; cbn [tokens cap free next readers handlers]; try assumption.
    + intros x. specialize (Hu x). rewrite occ_cons in Hu. lia.
    + intros x Hx. specialize (Hf x Hx). rewrite occ_cons in Hf. lia.
Qed.

Theorem hreach_inv k rs s : hreach k rs s -> hinv s.
Proof.
  intros [ls Hr]. revert s Hr. generalize (hinv_init k rs). generalize (hinit k rs).
  induction ls as [|l ls IH]; intros s0 H0 s Hr; cbn [hrun] in Hr.
  - inversion Hr; subst; exact H0.
  - destruct (hstep s0 l) as [s1|] eqn:E; [|discriminate]. eapply IH; [eapply hstep_inv; eassumption | exact Hr].
Qed.

(* ---------- consequences ---------- *)
Theorem capacity_bounded k rs s : hreach k rs s ->
  tokens s = (count r_holds (readers s) + count h_live (handlers s))%nat /\ (tokens s <= cap s)%nat.
Proof. intros H. destruct (hreach_inv _ _ _ H). auto. Qed.

(* when no handler is alive every unit of capacity is back, except the one each
   reader blocked in a read holds for the next message *)
Theorem no_leak k rs s : hreach k rs s -> count h_live (handlers s) = 0%nat ->
  tokens s = count r_holds (readers s).
Proof. intros H Hq. destruct (capacity_bounded _ _ _ H) as [E _]. lia. Qed.

Theorem all_idle_zero k rs s : hreach k rs s -> count h_live (handlers s) = 0%nat ->
  count r_holds (readers s) = 0%nat -> tokens s = 0%nat.
Proof. intros H Hq Hr. rewrite (no_leak _ _ _ H Hq). exact Hr. Qed.

(* capacity that is not in use can be taken: an idle reader can always acquire *)
Theorem acquire_enabled s i k0 : nth_error (readers s) i = Some (mkR k0 RIdle) -> (tokens s < cap s)%nat ->
  exists s', hstep s (RAcquire i) = Some s' /\ tokens s' = S (tokens s).
Proof.
  intros Hn Hlt. cbn [hstep]. rewrite Hn. destruct (Nat.ltb_spec (tokens s) (cap s)); [|lia].
  eexists. split; reflexivity.
Qed.

(* the capacity never changes *)
Lemma cap_const s l s' : hstep s l = Some s' -> cap s' = cap s.
Proof.
  destruct l as [i|i|i r|j|j e|j|j|]; cbn [hstep]; intros H.
  - destruct (nth_error (readers s) i) as [[k pc]|]; [|discriminate]. destruct pc; try discriminate.
    destruct (Nat.ltb (tokens s) (cap s)); inversion H; reflexivity.
  - destruct (nth_error (readers s) i) as [[k pc]|]; [|discriminate]. destruct pc; try discriminate.
    destruct (pool_get s) as [[b f] nx]. inversion H; reflexivity.
  - destruct (nth_error (readers s) i) as [[k pc]|]; [|discriminate]. destruct pc; try discriminate.
    destruct r, k; inversion H; reflexivity.
  - destruct (nth_error (handlers s) j) as [[c q pc w]|]; [|discriminate]. destruct pc; try discriminate.
    destruct (pool_get s) as [[b f] nx]. inversion H; reflexivity.
  - destruct (nth_error (handlers s) j) as [[c q pc w]|]; [|discriminate]. destruct pc; try discriminate. inversion H; reflexivity.
  - destruct (nth_error (handlers s) j) as [[c q pc w]|]; [|discriminate]. destruct pc as [| |rb wr|]; try discriminate.
    destruct wr; inversion H; reflexivity.
  - destruct (nth_error (handlers s) j) as [[c q pc w]|]; [|discriminate]. destruct pc as [| |rb wr|]; try discriminate.
    destruct wr; inversion H; reflexivity.
  - destruct (free s); inversion H; reflexivity.
Qed.

(* buffers: no buffer is in the pool and in use, or in use by two threads *)
Theorem buffers_unshared k rs s : hreach k rs s -> NoDup (free s ++ owned s).
Proof.
  intros H. destruct (hreach_inv _ _ _ H) as [_ _ Hu _ _].
  apply (NoDup_count_occ Nat.eq_dec). intros b. specialize (Hu b). unfold in_use, occ in Hu.
  rewrite count_occ_app. exact Hu.
Qed.

(* a handler writes its reply at most once *)
Theorem writes_at_most_once k rs s j h : hreach k rs s -> nth_error (handlers s) j = Some h -> (hwrites h <= 1)%nat.
Proof. intros H Hn. destruct (hreach_inv _ _ _ H) as [_ _ _ _ Hw]. exact (proj1 (Hw j h Hn)). Qed.

(* every way a request can end gives its unit back: the only way to the final
   state is the deferred cleanup, which releases exactly one *)
Theorem finish_releases s j s' h : hinv s -> nth_error (handlers s) j = Some h ->
  hstep s (HFinish j) = Some s' -> tokens s' = pred (tokens s) /\ (1 <= tokens s)%nat.
Proof.
  intros Hi Hn Hs. cbn [hstep] in Hs. rewrite Hn in Hs. destruct h as [c q pc w]. destruct pc as [| |rb wr|]; try discriminate.
  destruct wr; try discriminate. inversion Hs; subst; cbn [tokens]. split; [reflexivity|].
  destruct Hi as [Ht _ _ _ _]. pose proof (count_updl h_live j (mkHt c q HDone w) (handlers s) _ Hn) as Hx.
  cbn [h_live hpc] in Hx. lia.
Qed.
