(* Proofs/WireFacts.v -- the parser model never panics and never runs out of
   fuel; invariants of the Parser state machine. *)
From NX Require Import Bytes Wire.
From Coq Require Import ZifyBool.
Open Scope Z_scope.

Definition normal {A} (r : res A) : Prop :=
  match r with Ok _ | Err _ => True | Panic | OutOfFuel => False end.

Lemma normal_bind {A B} (r : res A) (f : A -> res B) :
  normal r -> (forall a, r = Ok a -> normal (f a)) -> normal (bind r f).
Proof. destruct r; cbn; intros H Hf; try exact H; try exact I. apply Hf. reflexivity. Qed.

(* byte well-formedness of what remains under a cursor *)
Definition okb (l : bytes) : Prop := Forall (fun b => 0 <= b < 256) l.
Definition okc (c : cur) : Prop := okb (snd c).

Lemma okb_tail x l : okb (x :: l) -> okb l.
Proof. intros H; inversion H; assumption. Qed.
Lemma okb_head x l : okb (x :: l) -> 0 <= x < 256.
Proof. intros H; inversion H; assumption. Qed.

Lemma okb_skipn n l : okb l -> okb (skipn n l).
Proof.
  revert l; induction n as [|n IH]; intros l H; cbn; [exact H|].
  destruct l as [|x l]; [constructor|]. apply IH. eapply okb_tail; eassumption.
Qed.
Lemma okb_dropz n l : okb l -> okb (dropz n l).
Proof. apply okb_skipn. Qed.

Lemma get16_normal c : normal (get16 c).
Proof. unfold get16. destruct (snd c) as [|a [|b r]]; exact I. Qed.
Lemma get32_normal c : normal (get32 c).
Proof. unfold get32. destruct (snd c) as [|a [|b [|c' [|d r]]]]; exact I. Qed.

Lemma get16_ok c v c' : okc c -> get16 c = Ok (v, c') -> okc c' /\ 0 <= v < 65536.
Proof.
  unfold get16, okc. destruct c as [off rest]; cbn [fst snd].
  destruct rest as [|a [|b r]]; intros H E; inversion E; subst; cbn [snd].
  pose proof (okb_head _ _ H). pose proof (okb_head _ _ (okb_tail _ _ H)).
  split; [eapply okb_tail, okb_tail; eassumption | unfold u16; lia].
Qed.
Lemma get32_ok c v c' : okc c -> get32 c = Ok (v, c') -> okc c'.
Proof.
  unfold get32, okc. destruct c as [off rest]; cbn [fst snd].
  destruct rest as [|a [|b [|c0 [|d r]]]]; intros H E; inversion E; subst; cbn [snd].
  do 4 (apply okb_tail in H). exact H.
Qed.

Lemma drop_exact_ok k l r : okb l -> drop_exact k l = Some r -> okb r.
Proof.
  revert l; induction k as [|k IH]; intros l H E; cbn in E.
  - inversion E; subst; exact H.
  - destruct l as [|x l]; [discriminate|]. eapply IH; [eapply okb_tail; eassumption | exact E].
Qed.
Lemma advance_ok k c c' : okc c -> advance k c = Some c' -> okc c'.
Proof.
  unfold advance, okc. destruct (drop_exact (Z.to_nat k) (snd c)) eqn:E; intros H E'; inversion E'; subst.
  cbn [snd]. eapply drop_exact_ok; eassumption.
Qed.

(* skipName *)
Lemma skip_name_go_normal rest k off : normal (skip_name_go rest k off).
Proof.
  revert k off; induction rest as [|c r IH]; intros k off; cbn [skip_name_go]; [exact I|].
  destruct k as [|k']; [|apply IH].
  destruct (Z.land c 192 =? 0); [destruct (c =? 0); [exact I | apply IH]|].
  destruct (Z.land c 192 =? 192); exact I.
Qed.
Lemma skip_name_go_ok rest k off c' : okb rest -> skip_name_go rest k off = Ok c' -> okc c'.
Proof.
  revert k off; induction rest as [|c r IH]; intros k off H E; cbn [skip_name_go] in E; [discriminate|].
  pose proof (okb_tail _ _ H) as Hr.
  destruct k as [|k']; [|eapply IH; eassumption].
  destruct (Z.land c 192 =? 0).
  - destruct (c =? 0); [inversion E; subst; exact Hr | eapply IH; eassumption].
  - destruct (Z.land c 192 =? 192); [|discriminate]. inversion E; subst. unfold okc; cbn [snd].
    destruct r as [|x r']; [constructor | eapply okb_tail; eassumption].
Qed.
Lemma skip_name_normal c : normal (skip_name c).
Proof. apply skip_name_go_normal. Qed.
Lemma skip_name_ok c c' : okc c -> skip_name c = Ok c' -> okc c'.
Proof. apply skip_name_go_ok. Qed.

(* labels / unpack_name *)
Lemma labels_ok rest k off rn :
  okb rest ->
  match labels rest k off rn with
  | LEnd _ c => okc c
  | LPtr t _ c => okc c
  | LErr _ => True
  end.
Proof.
  revert k off rn; induction rest as [|c r IH]; intros k off rn H; cbn [labels]; [exact I|].
  pose proof (okb_tail _ _ H) as Hr.
  destruct k as [|k']; [|apply IH; exact Hr].
  destruct (Z.land c 192 =? 0).
  - destruct (c =? 0); [exact Hr | apply IH; exact Hr].
  - destruct (Z.land c 192 =? 192); [|exact I].
    destruct r as [|c1 r']; [exact I|]. unfold okc; cbn [snd]. eapply okb_tail; eassumption.
Qed.

Lemma unpack_name_go_normal budget msg c first rn newc :
  normal (unpack_name_go budget msg c first rn newc).
Proof.
  revert c first rn newc; induction budget as [|b IH]; intros c first rn newc; cbn [unpack_name_go];
    destruct (labels (snd c) 0 (fst c) rn) as [rn' c'|t rn' c'|e]; try exact I;
    try (destruct (len _ >? 255); exact I). apply IH.
Qed.
Lemma unpack_name_go_ok budget msg c first rn newc name c2 :
  okb msg -> okc c -> okc newc ->
  unpack_name_go budget msg c first rn newc = Ok (name, c2) -> okc c2.
Proof.
  revert c first rn newc; induction budget as [|b IH]; intros c first rn newc Hm Hc Hn E;
    cbn [unpack_name_go] in E; pose proof (labels_ok (snd c) 0 (fst c) rn Hc) as HL;
    destruct (labels (snd c) 0 (fst c) rn) as [rn' c'|t rn' c'|e]; try discriminate.
  - destruct (len _ >? 255); [discriminate|]. inversion E; subst. destruct first; assumption.
  - destruct (len _ >? 255); [discriminate|]. inversion E; subst. destruct first; assumption.
  - eapply IH; [exact Hm | | | exact E].
    + unfold okc; cbn [snd]. apply okb_dropz; exact Hm.
    + destruct first; assumption.
Qed.
Lemma unpack_name_normal msg c : normal (unpack_name msg c).
Proof. apply unpack_name_go_normal. Qed.
Lemma unpack_name_ok msg c name c2 : okb msg -> okc c -> unpack_name msg c = Ok (name, c2) -> okc c2.
Proof. intros Hm Hc. unfold unpack_name. apply unpack_name_go_ok; assumption. Qed.

(* composite readers *)
Ltac step_bind :=
  match goal with
  | |- normal (bind ?r _) => apply normal_bind
  end.

Lemma skip_resource_normal c : normal (skip_resource c).
Proof.
  unfold skip_resource.
  apply normal_bind; [apply skip_name_normal|]; intros c1 _.
  apply normal_bind; [apply get16_normal|]; intros [v2 c2] _.
  apply normal_bind; [apply get16_normal|]; intros [v3 c3] _.
  apply normal_bind; [apply get32_normal|]; intros [v4 c4] _.
  apply normal_bind; [apply get16_normal|]; intros [l c5] _.
  destruct (advance l c5); exact I.
Qed.

Lemma bind_ok {A B} (r : res A) (f : A -> res B) b : bind r f = Ok b -> exists a, r = Ok a /\ f a = Ok b.
Proof. destruct r; cbn; intros E; try discriminate. eauto. Qed.

Lemma skip_resource_ok c c' : okc c -> skip_resource c = Ok c' -> okc c'.
Proof.
  unfold skip_resource; intros H E.
  apply bind_ok in E as (c1 & E1 & E). apply skip_name_ok in E1; [|exact H].
  apply bind_ok in E as ([v2 c2] & E2 & E). apply get16_ok in E2 as [H2 _]; [|exact E1].
  apply bind_ok in E as ([v3 c3] & E3 & E). apply get16_ok in E3 as [H3 _]; [|exact H2].
  apply bind_ok in E as ([v4 c4] & E4 & E). apply get32_ok in E4; [|exact H3].
  apply bind_ok in E as ([l c5] & E5 & E). apply get16_ok in E5 as [H5 _]; [|exact E4].
  destruct (advance l c5) eqn:Ea; inversion E; subst. eapply advance_ok; eassumption.
Qed.

Lemma unpack_rheader_normal msg c : normal (unpack_rheader msg c).
Proof.
  unfold unpack_rheader.
  apply normal_bind; [apply unpack_name_normal|]; intros [n c1] _.
  apply normal_bind; [apply get16_normal|]; intros [v2 c2] _.
  apply normal_bind; [apply get16_normal|]; intros [v3 c3] _.
  apply normal_bind; [apply get32_normal|]; intros [v4 c4] _.
  apply normal_bind; [apply get16_normal|]; intros [l c5] _. exact I.
Qed.

Lemma unpack_rheader_ok msg c h c' :
  okb msg -> okc c -> unpack_rheader msg c = Ok (h, c') -> okc c' /\ 0 <= rh_len h < 65536.
Proof.
  unfold unpack_rheader; intros Hm H E.
  apply bind_ok in E as ([n c1] & E1 & E). apply unpack_name_ok in E1; [|exact Hm|exact H].
  apply bind_ok in E as ([v2 c2] & E2 & E). apply get16_ok in E2 as [H2 _]; [|exact E1].
  apply bind_ok in E as ([v3 c3] & E3 & E). apply get16_ok in E3 as [H3 _]; [|exact H2].
  apply bind_ok in E as ([v4 c4] & E4 & E). apply get32_ok in E4; [|exact H3].
  apply bind_ok in E as ([l c5] & E5 & E). apply get16_ok in E5 as [H5 Hl]; [|exact E4].
  inversion E; subst. cbn [rh_len]. split; assumption.
Qed.

(* unpackOPTResource: the fuel S (to_nat rdlen) suffices because every
   iteration consumes at least the 4-byte option header *)
Lemma unpack_opts_normal fuel c left acc :
  okc c -> Z.max left 0 < Z.of_nat fuel -> normal (unpack_opts fuel c left acc).
Proof.
  revert c left acc; induction fuel as [|f IH]; intros c left acc Hc Hf; cbn [unpack_opts normal].
  - lia.
  - destruct (0 <? left) eqn:E; [|exact I].
    apply normal_bind; [apply get16_normal|]; intros [code c1] E1.
    apply get16_ok in E1 as [H1 _]; [|exact Hc].
    apply normal_bind; [apply get16_normal|]; intros [l c2] E2.
    apply get16_ok in E2 as [H2 Hl]; [|exact H1].
    destruct (take_exact (Z.to_nat l) (snd c2)); [|exact I].
    destruct (advance l c2) eqn:Ea; [|exact I].
    apply IH; [eapply advance_ok; eassumption | lia].
Qed.

(* ---- parser state invariant ---- *)
Definition hdr_ok (h : header) : Prop :=
  0 <= h_qd h < 65536 /\ 0 <= h_an h < 65536 /\ 0 <= h_ns h < 65536 /\ 0 <= h_ar h < 65536.

Lemma count_range h sec : hdr_ok h -> 0 <= count h sec < 65536.
Proof.
  intros (H1 & H2 & H3 & H4). unfold count.
  destruct (sec =? 1); [lia|]. destruct (sec =? 2); [lia|].
  destruct (sec =? 3); [lia|]. destruct (sec =? 4); lia.
Qed.

(* index never passes the section count; a latched header means one more
   record is owed *)
Definition pinv (p : parser) : Prop :=
  hdr_ok (p_hdr p) /\ okc (p_cur p) /\
  0 <= p_idx p <= count (p_hdr p) (p_sec p) /\
  (p_hv p = true -> p_idx p < count (p_hdr p) (p_sec p)) /\
  (p_hv p = true -> 0 <= rh_len (p_rh p) < 65536).

Ltac psimpl := unfold set_cur; cbn [p_hdr p_sec p_cur p_idx p_hv p_rh fst snd].

Ltac pinv_intro := unfold pinv; psimpl; refine (conj _ (conj _ (conj _ (conj _ _)))).

Lemma unpack_header_ok msg h c : okb msg -> unpack_header msg = Ok (h, c) -> hdr_ok h /\ okc c.
Proof.
  unfold unpack_header; intros Hm E.
  assert (H0 : okc (0, msg)) by exact Hm.
  apply bind_ok in E as ([v1 c1] & E1 & E). apply get16_ok in E1 as [H1 R1]; [|exact H0].
  apply bind_ok in E as ([v2 c2] & E2 & E). apply get16_ok in E2 as [H2 R2]; [|exact H1].
  apply bind_ok in E as ([v3 c3] & E3 & E). apply get16_ok in E3 as [H3 R3]; [|exact H2].
  apply bind_ok in E as ([v4 c4] & E4 & E). apply get16_ok in E4 as [H4 R4]; [|exact H3].
  apply bind_ok in E as ([v5 c5] & E5 & E). apply get16_ok in E5 as [H5 R5]; [|exact H4].
  apply bind_ok in E as ([v6 c6] & E6 & E). apply get16_ok in E6 as [H6 R6]; [|exact H5].
  inversion E; subst. unfold hdr_ok; cbn. auto.
Qed.

Lemma p_start_inv msg p : okb msg -> p_start msg = Ok p -> pinv p.
Proof.
  unfold p_start; intros Hm E. apply bind_ok in E as ([h c] & E1 & E). inversion E; subst.
  apply unpack_header_ok in E1 as [Hh Hc]; [|exact Hm].
  pose proof Hh as (Hq & Hrest). pinv_intro; try assumption; try discriminate.
  unfold count, secQ; cbn [Z.eqb Pos.eqb]. lia.
Qed.

Lemma p_start_normal msg : normal (p_start msg).
Proof.
  unfold p_start, unpack_header.
  repeat (apply normal_bind; [try apply get16_normal | intros [? ?] _]). exact I.
  Unshelve. all: exact I.
Qed.

Lemma check_advance_inv p sec p1 r :
  pinv p -> check_advance p sec = (p1, r) ->
  pinv p1 /\ p_hdr p1 = p_hdr p /\
  (r = None -> p_sec p1 = sec /\ p_sec p = sec /\ p_idx p1 = p_idx p /\ p_idx p < count (p_hdr p) sec
               /\ p_hv p1 = false /\ p_cur p1 = p_cur p).
Proof.
  intros Hp E. pose proof Hp as (Hh & Hc & Hi & Hv & Hl). unfold check_advance in E.
  destruct (p_sec p <? sec) eqn:E1;
    [inversion E; subst; split; [exact Hp | split; [reflexivity | discriminate]]|].
  destruct (p_sec p >? sec) eqn:E2;
    [inversion E; subst; split; [exact Hp | split; [reflexivity | discriminate]]|].
  assert (p_sec p = sec) by lia.
  destruct (p_idx p =? count (p_hdr p) sec) eqn:E3; inversion E; subst; clear E.
  - split; [|split; [reflexivity | discriminate]].
    pose proof (count_range (p_hdr p) (p_sec p + 1) Hh).
    pinv_intro; try assumption; try discriminate; lia.
  - split; [|split; [reflexivity|]].
    + pinv_intro; try assumption; try discriminate; lia.
    + intros _. psimpl. repeat split; try reflexivity. lia.
Qed.

(* one successful skip step: same section, index + 1 *)
Definition step_spec (sec : Z) (step : parser -> parser * res unit) : Prop :=
  forall p, pinv p -> p_hv p = false ->
    let '(p1, r) := step p in
    normal r /\ pinv p1 /\ p_hv p1 = false /\ p_hdr p1 = p_hdr p /\
    (forall u, r = Ok u -> p_sec p = sec /\ p_sec p1 = sec /\ p_idx p1 = p_idx p + 1).

Lemma check_advance_hv p sec p1 r : check_advance p sec = (p1, r) -> p_hv p = false -> p_hv p1 = false.
Proof.
  unfold check_advance. intros E Hv.
  destruct (p_sec p <? sec); [inversion E; subst; exact Hv|].
  destruct (p_sec p >? sec); [inversion E; subst; exact Hv|].
  destruct (p_idx p =? _); inversion E; subst; reflexivity.
Qed.

Lemma generic_skip_spec reader sec :
  (forall c, normal (reader c)) ->
  (forall c c', okc c -> reader c = Ok c' -> okc c') ->
  step_spec sec (fun p => generic_skip reader p sec).
Proof.
  intros Hn Hok p Hp Hv. unfold generic_skip.
  destruct (check_advance p sec) as [p1 r] eqn:Eca.
  destruct (check_advance_inv _ _ _ _ Hp Eca) as (Hp1 & Hh & Hr).
  pose proof (check_advance_hv _ _ _ _ Eca Hv) as Hv1.
  destruct r as [e|].
  - refine (conj I (conj Hp1 (conj Hv1 (conj Hh _)))). intros u Hu; discriminate.
  - destruct (Hr eq_refl) as (Hs1 & Hs & Hi & Hlt & _ & Hcur).
    pose proof Hp1 as (Hh1 & Hc1 & Hi1 & Hvv1 & Hl1).
    unfold lift. pose proof (Hn (p_cur p1)) as N.
    destruct (reader (p_cur p1)) as [c| | |] eqn:Er; try contradiction.
    + apply Hok in Er; [|exact Hc1].
      refine (conj I (conj _ (conj _ (conj _ _)))).
      * pinv_intro; try assumption; try (rewrite Hv1; discriminate).
        rewrite Hh, Hs1, Hi. lia.
      * psimpl. exact Hv1.
      * psimpl. exact Hh.
      * intros u _. psimpl. rewrite Hi. auto.
    + refine (conj I (conj Hp1 (conj Hv1 (conj Hh _)))). intros u Hu; discriminate.
Qed.

Lemma skip_question_body_normal c : normal (skip_question_body c).
Proof.
  unfold skip_question_body.
  apply normal_bind; [apply skip_name_normal|]; intros c1 _.
  apply normal_bind; [apply get16_normal|]; intros [v2 c2] _.
  apply normal_bind; [apply get16_normal|]; intros [v3 c3] _. exact I.
Qed.
Lemma skip_question_body_ok c c' : okc c -> skip_question_body c = Ok c' -> okc c'.
Proof.
  unfold skip_question_body; intros H E.
  apply bind_ok in E as (c1 & E1 & E). apply skip_name_ok in E1; [|exact H].
  apply bind_ok in E as ([v2 c2] & E2 & E). apply get16_ok in E2 as [H2 _]; [|exact E1].
  apply bind_ok in E as ([v3 c3] & E3 & E). apply get16_ok in E3 as [H3 _]; [|exact H2].
  inversion E; subst; exact H3.
Qed.

Lemma p_skip_question_spec : step_spec secQ p_skip_question.
Proof. apply generic_skip_spec; [apply skip_question_body_normal | apply skip_question_body_ok]. Qed.

Lemma p_skip_resource_spec sec : step_spec sec (fun p => p_skip_resource p sec).
Proof.
  intros p Hp Hv. unfold p_skip_resource. rewrite Hv.
  apply (generic_skip_spec skip_resource sec skip_resource_normal skip_resource_ok p Hp Hv).
Qed.

(* the skip-all loops never exhaust their fuel *)
Lemma skip_all_normal sec step fuel p :
  step_spec sec step -> pinv p -> p_hv p = false ->
  (p_sec p = sec -> count (p_hdr p) sec - p_idx p + 1 < Z.of_nat fuel) ->
  (1 < Z.of_nat fuel) ->
  match skip_all fuel step p with
  | Ok p' => pinv p' /\ p_hv p' = false /\ p_hdr p' = p_hdr p
  | Err _ => True
  | _ => False
  end.
Proof.
  intros Hs. revert p. induction fuel as [|f IH]; intros p Hp Hv Hf H1; [cbn in H1; lia|].
  cbn [skip_all]. specialize (Hs p Hp Hv). destruct (step p) as [p1 r].
  destruct Hs as (Hn & Hp1 & Hv1 & Hh & Hok).
  destruct r as [u|e| |]; try contradiction.
  - destruct (Hok u eq_refl) as (Hsec & Hsec1 & Hidx).
    specialize (Hf Hsec).
    pose proof Hp1 as (_ & _ & Hi1 & _).
    assert (Hf' : 1 < Z.of_nat f) by (rewrite Hsec1, Hh, Hidx in Hi1; lia).
    specialize (IH p1 Hp1 Hv1).
    destruct (skip_all f step p1) as [p'| | |] eqn:Es.
    + rewrite <- Hh. apply IH; [|exact Hf']. intros _. rewrite Hh, Hidx. lia.
    + exact I.
    + apply IH; [|exact Hf']. intros _. rewrite Hh, Hidx. lia.
    + apply IH; [|exact Hf']. intros _. rewrite Hh, Hidx. lia.
  - auto.
Qed.
