(* Proofs/DiscoveryFacts.v -- association tables built from hosts files; the mDNS
   size bound; Proxy.Resolve's no-upstream guarantees. *)
From NX Require Import Bytes Wire Query Discovery Mdns ProxyResolve ConfigFacts.
From Coq Require Import ZifyBool.
Open Scope Z_scope.

Lemma beq_bytes_sym a b : beq_bytes a b = beq_bytes b a.
Proof.
  destruct (beq_bytes a b) eqn:E.
  - apply beq_bytes_eq in E. subst. symmetry. apply beq_bytes_refl.
  - destruct (beq_bytes b a) eqn:E2; [|reflexivity]. apply beq_bytes_eq in E2. subst.
    rewrite beq_bytes_refl in E. discriminate.
Qed.

(* ---------- association lists ---------- *)
Lemma aget_aupd m k f k' :
  aget (aupd m k f) k' = if beq_bytes k' k then f (aget m k') else aget m k'.
Proof.
  induction m as [|[k0 v0] r IH]; cbn [aupd aget].
  - destruct (beq_bytes k' k); reflexivity.
  - destruct (beq_bytes k k0) eqn:E; cbn [aget].
    + apply beq_bytes_eq in E. subst k0. destruct (beq_bytes k' k); reflexivity.
    + destruct (beq_bytes k' k0) eqn:E2.
      * destruct (beq_bytes k' k) eqn:E3; [|reflexivity].
        apply beq_bytes_eq in E2, E3. subst. rewrite beq_bytes_refl in E. discriminate.
      * exact IH.
Qed.

(* folding "append v under key k" over a list of pairs: a lookup returns, in
   order and with repeats, exactly the values whose key is the one asked *)
Definition add_pair (m : amap) (p : bytes * bytes) : amap := aupd m (fst p) (fun v => v ++ [snd p]).

Lemma aget_fold_pairs ps m k :
  aget (fold_left add_pair ps m) k =
  aget m k ++ map snd (filter (fun p => beq_bytes k (fst p)) ps).
Proof.
  revert m; induction ps as [|[k0 v0] ps IH]; intros m; cbn [fold_left filter map].
  - rewrite app_nil_r. reflexivity.
  - rewrite IH. unfold add_pair; cbn [fst snd]. rewrite aget_aupd.
    destruct (beq_bytes k k0); cbn [map]; [rewrite <- app_assoc; reflexivity | reflexivity].
Qed.

(* ---------- hosts file: what a line contributes ---------- *)
Section HostsFacts.
  Variable canon : bytes -> option bytes.

  (* the associations of one line: (canonical address, name as written) *)
  Definition line_assoc (line : bytes) : list (bytes * bytes) :=
    match fields (strip_comment line) with
    | a :: n1 :: nrest =>
      match canon a with
      | Some addr => map (fun n => (addr, n)) (n1 :: nrest)
      | None => []
      end
    | _ => []
    end.
  Definition file_assoc (file : bytes) : list (bytes * bytes) := flat_map line_assoc (split_lines file).

  Definition names_pairs (l : list (bytes * bytes)) : list (bytes * bytes) :=
    map (fun p => (abs_name (lower_ascii (snd p)), fst p)) l.
  Definition addrs_pairs (l : list (bytes * bytes)) : list (bytes * bytes) :=
    map (fun p => (fst p, abs_name (snd p))) l.

  Lemma fold_names_addrs addr ns t :
    fold_left (fun t f =>
          mkHosts (aupd (ht_names t) (abs_name (lower_ascii f)) (fun v => v ++ [addr]))
                  (aupd (ht_addrs t) addr (fun v => v ++ [abs_name f]))) ns t
    = mkHosts (fold_left add_pair (names_pairs (map (fun n => (addr, n)) ns)) (ht_names t))
              (fold_left add_pair (addrs_pairs (map (fun n => (addr, n)) ns)) (ht_addrs t)).
  Proof.
    revert t; induction ns as [|n ns IH]; intros t; cbn [fold_left map names_pairs addrs_pairs].
    - destruct t; reflexivity.
    - rewrite IH. cbn [ht_names ht_addrs]. reflexivity.
  Qed.

  Lemma hosts_add_line_spec t line :
    hosts_add_line canon t line =
      mkHosts (fold_left add_pair (names_pairs (line_assoc line)) (ht_names t))
              (fold_left add_pair (addrs_pairs (line_assoc line)) (ht_addrs t)).
  Proof.
    unfold hosts_add_line, line_assoc.
    destruct (fields (strip_comment line)) as [|a [|n1 nrest]]; try (destruct t; reflexivity).
    destruct (canon a) as [addr|]; [|destruct t; reflexivity].
    apply fold_names_addrs.
  Qed.

  Lemma fold_lines_spec lines t :
    fold_left (hosts_add_line canon) lines t =
      mkHosts (fold_left add_pair (names_pairs (flat_map line_assoc lines)) (ht_names t))
              (fold_left add_pair (addrs_pairs (flat_map line_assoc lines)) (ht_addrs t)).
  Proof.
    revert t; induction lines as [|l ls IH]; intros t; cbn [fold_left flat_map].
    - destruct t; reflexivity.
    - rewrite IH, hosts_add_line_spec. cbn [ht_names ht_addrs].
      unfold names_pairs, addrs_pairs. rewrite !map_app, !fold_left_app. reflexivity.
  Qed.

  (* LookupAddr: exactly the names written next to that address, in file order *)
  Theorem hosts_addr_exact file a :
    aget (ht_addrs (read_hosts canon file)) a =
      map (fun p => abs_name (snd p)) (filter (fun p => beq_bytes a (fst p)) (file_assoc file)).
  Proof.
    unfold read_hosts. cbn [ht_addrs]. rewrite fold_lines_spec. cbn [ht_addrs].
    rewrite aget_fold_pairs. cbn [aget app]. unfold addrs_pairs, file_assoc.
    induction (flat_map line_assoc (split_lines file)) as [|p l IH]; cbn [map filter fst snd]; [reflexivity|].
    destruct (beq_bytes a (fst p)); cbn [map snd]; rewrite IH; reflexivity.
  Qed.

  (* LookupHost for a key other than the two built-in localhost keys: exactly the
     addresses written next to a spelling of that name, in file order, with repeats *)
  Lemma aget_add_default m k k' : beq_bytes k' k = false -> aget (add_default m k) k' = aget m k'.
  Proof.
    intros H. unfold add_default. destruct (aget m k); [|reflexivity].
    rewrite aget_aupd, H. reflexivity.
  Qed.

  Theorem hosts_name_exact file key :
    beq_bytes key localhost_s = false -> beq_bytes key localdomain_s = false ->
    aget (ht_names (read_hosts canon file)) key =
      map fst (filter (fun p => beq_bytes key (abs_name (lower_ascii (snd p)))) (file_assoc file)).
  Proof.
    intros H1 H2. unfold read_hosts. cbn [ht_names].
    rewrite !aget_add_default by assumption.
    rewrite fold_lines_spec. cbn [ht_names]. rewrite aget_fold_pairs. cbn [aget app].
    unfold names_pairs, file_assoc.
    induction (flat_map line_assoc (split_lines file)) as [|p l IH]; cbn [map filter fst snd]; [reflexivity|].
    destruct (beq_bytes key (abs_name (lower_ascii (snd p)))); cbn [map snd]; rewrite IH; reflexivity.
  Qed.

  (* the built-in default applies only when the file says nothing for that key *)
  Theorem hosts_localdomain_default file :
    (forall p, In p (file_assoc file) -> beq_bytes localdomain_s (abs_name (lower_ascii (snd p))) = false) ->
    aget (ht_names (read_hosts canon file)) localdomain_s = [lo4; lo6].
  Proof.
    intros H. unfold read_hosts. cbn [ht_names].
    set (m := add_default _ localhost_s).
    assert (Hm : aget m localdomain_s = []).
    { unfold m. rewrite aget_add_default by reflexivity.
      rewrite fold_lines_spec. cbn [ht_names]. rewrite aget_fold_pairs. cbn [aget app].
      unfold names_pairs. fold (file_assoc file).
      induction (file_assoc file) as [|p l IH]; cbn [map filter fst snd]; [reflexivity|].
      rewrite (H p (or_introl eq_refl)). apply IH. intros q Hq. apply H. right; exact Hq. }
    unfold add_default. rewrite Hm. rewrite aget_aupd, beq_bytes_refl. reflexivity.
  Qed.
End HostsFacts.

(* lookups are case-insensitive in the asked name *)
Theorem hosts_lookup_case t n n' : lower n = lower n' -> hosts_lookup_host t n = hosts_lookup_host t n'.
Proof. intros H. unfold hosts_lookup_host. rewrite H. reflexivity. Qed.

(* ---------- mDNS: the table never holds more than cap names ---------- *)
Lemma mset_length m k e : (length (mset m k e) <= S (length m))%nat.
Proof.
  induction m as [|[k' e'] r IH]; cbn [mset length]; [lia|].
  destruct (beq_bytes k k'); cbn [length]; lia.
Qed.

Lemma mdel_length_present m k e : mget m k = Some e -> length (mdel m k) = (length m - 1)%nat.
Proof.
  revert e; induction m as [|[k' e'] r IH]; intros e H; cbn [mget mdel length] in *; [discriminate|].
  destruct (beq_bytes k k'); [lia|]. cbn [length]. rewrite (IH e H).
  destruct r; [cbn in H; discriminate | cbn [length]; lia].
Qed.

Lemma oldest_present m best k t :
  oldest m best = Some (k, t) ->
  (exists e, mget m k = Some e) \/ best = Some (k, t).
Proof.
  revert best; induction m as [|[k0 e0] r IH]; intros best H; cbn [oldest] in H; [right; exact H|].
  assert (Hk0 : oldest r (Some (k0, me_stamp e0)) = Some (k, t) ->
                 (exists e, mget ((k0, e0) :: r) k = Some e)).
  { intros Hkk. destruct (IH _ Hkk) as [[e He]|Heq].
    - cbn [mget]. destruct (beq_bytes k k0); eauto.
    - inversion Heq; subst. cbn [mget]. rewrite beq_bytes_refl. eauto. }
  destruct best as [[kb tb]|].
  - destruct (me_stamp e0 <? tb).
    + left. apply Hk0; exact H.
    + destruct (IH _ H) as [[e He]|Heq]; [left|right; exact Heq].
      cbn [mget]. destruct (beq_bytes k k0); eauto.
  - left. apply Hk0; exact H.
Qed.

Lemma oldest_some m b : b <> None -> oldest m b <> None.
Proof.
  revert b; induction m as [|[k0 e0] r IH]; intros b Hb; cbn [oldest]; [exact Hb|].
  destruct b as [[kb tb]|]; [|congruence].
  destruct (me_stamp e0 <? tb); apply IH; discriminate.
Qed.

Lemma remove_oldest_length s :
  md_names s <> [] -> length (md_names (remove_oldest s)) = (length (md_names s) - 1)%nat.
Proof.
  intros Hne. unfold remove_oldest.
  destruct (oldest (md_names s) None) as [[k t]|] eqn:E.
  - cbn [md_names]. destruct (oldest_present _ _ _ _ E) as [[e He]|Hb]; [|discriminate].
    eapply mdel_length_present; exact He.
  - exfalso. destruct (md_names s) as [|[k0 e0] r]; [congruence|]. cbn [oldest] in E.
    revert E. apply oldest_some. discriminate.
Qed.

Lemma evict_bound fuel cap s :
  (length (md_names s) <= cap + fuel)%nat -> (length (md_names (evict fuel cap s)) <= cap)%nat.
Proof.
  revert s; induction fuel as [|f IH]; intros s H; cbn [evict]; [lia|].
  destruct (Nat.ltb cap (length (md_names s))) eqn:E.
  - apply Nat.ltb_lt in E. apply IH.
    rewrite remove_oldest_length; [lia|]. destruct (md_names s); [cbn in E; lia | discriminate].
  - apply Nat.ltb_ge in E. exact E.
Qed.

Theorem announce_bound cap s addr name :
  (length (md_names s) <= cap)%nat -> (length (md_names (announce cap s addr name)) <= cap)%nat.
Proof.
  intros H. unfold announce. destruct (negb (is_valid_name name)); [exact H|].
  apply evict_bound. cbn [md_names]. lia.
Qed.

Theorem announces_bound cap ops s :
  (length (md_names s) <= cap)%nat ->
  (length (md_names (fold_left (fun s p => announce cap s (fst p) (snd p)) ops s)) <= cap)%nat.
Proof.
  revert s; induction ops as [|p ops IH]; intros s H; cbn [fold_left]; [exact H|].
  apply IH. apply announce_bound. exact H.
Qed.

(* eviction removes a least recently updated name: nothing older survives *)
Lemma oldest_min m best k t :
  oldest m best = Some (k, t) ->
  (forall kb tb, best = Some (kb, tb) -> t <= tb) /\
  (forall k' e, In (k', e) m -> t <= me_stamp e).
Proof.
  revert best; induction m as [|[k0 e0] r IH]; intros best H; cbn [oldest] in H.
  - split; [intros kb tb Hb; rewrite Hb in H; inversion H; lia | intros k' e []].
  - destruct best as [[kb tb]|].
    + destruct (me_stamp e0 <? tb) eqn:E.
      * destruct (IH _ H) as [Hb Hall]. specialize (Hb _ _ eq_refl).
        split; [intros kb' tb' Hb'; inversion Hb'; subst; lia|].
        intros k' e [Heq|Hin]; [inversion Heq; subst; lia | eapply Hall; exact Hin].
      * destruct (IH _ H) as [Hb Hall]. specialize (Hb _ _ eq_refl).
        split; [intros kb' tb' Hb'; inversion Hb'; subst; lia|].
        intros k' e [Heq|Hin]; [inversion Heq; subst; lia | eapply Hall; exact Hin].
    + destruct (IH _ H) as [Hb Hall]. specialize (Hb _ _ eq_refl).
      split; [intros kb' tb' Hb'; discriminate|].
      intros k' e [Heq|Hin]; [inversion Heq; subst; lia | eapply Hall; exact Hin].
Qed.

Theorem evicted_is_oldest s k t :
  oldest (md_names s) None = Some (k, t) -> forall k' e, In (k', e) (md_names s) -> t <= me_stamp e.
Proof. intros H. exact (proj2 (oldest_min _ _ _ _ H)). Qed.

(* ---------- Proxy.Resolve ---------- *)
Section ResolveFacts.
  Variable ip_string : option bytes -> bytes.
  Variable ip_bytes : bytes -> option bytes.

  (* a local (hosts) answer never reaches any upstream *)
  Theorem local_no_upstream c r q up ans :
    local c = Some r -> hosts_resolve ip_string ip_bytes r q = Some ans ->
    proxy_resolve ip_string ip_bytes c q up = (PLocal ans, 0).
  Proof. intros Hl Hr. unfold proxy_resolve. rewrite Hl, Hr. reflexivity. Qed.

  (* bogus-priv: a PTR query for a private reverse name is never sent upstream and is
     answered NXDOMAIN, or from the hosts/discovery tables *)
  Theorem bogus_priv_no_upstream c q up :
    bogus_priv c = true -> q_type q = tPTR -> is_private_reverse (q_name q) = true ->
    snd (proxy_resolve ip_string ip_bytes c q up) = 0 /\
    match fst (proxy_resolve ip_string ip_bytes c q up) with
    | PNX | PLocal _ | PDisc _ => True
    | PUp _ _ => False
    end.
  Proof.
    intros Hb Ht Hp. unfold proxy_resolve.
    destruct (match local c with Some r => hosts_resolve ip_string ip_bytes r q | None => None end); [split; [reflexivity|exact I]|].
    rewrite Hb, Ht, Hp. cbn [Z.eqb tPTR Pos.eqb andb negb orb].
    destruct (q_rd q && _).
    - destruct (match disc c with Some r => hosts_resolve ip_string ip_bytes r q | None => None end); split; try reflexivity; exact I.
    - split; [reflexivity | exact I].
  Qed.

  (* everything else goes to the upstream exactly once *)
  Theorem other_once c q up :
    (match local c with Some r => hosts_resolve ip_string ip_bytes r q | None => None end) = None ->
    (bogus_priv c = false \/ (q_type q =? tPTR) && is_private_reverse (q_name q) = false) ->
    snd (proxy_resolve ip_string ip_bytes c q up) = 1.
  Proof.
    intros Hl Hc. unfold proxy_resolve. rewrite Hl.
    assert (negb (bogus_priv c) || negb ((q_type q =? tPTR) && is_private_reverse (q_name q)) = true) as ->.
    { destruct Hc as [H|H]; rewrite H; [reflexivity | apply orb_true_r]. }
    destruct up as [msg err].
    match goal with |- snd (match ?f with Some _ => _ | None => _ end) = 1 => destruct f end;
      [reflexivity|]. destruct (bogus_priv c && _); reflexivity.
  Qed.
End ResolveFacts.

(* the reverse name is read case-insensitively *)
Theorem ptr_ip_case n n' : lower n = lower n' -> ptr_ip n = ptr_ip n'.
Proof. intros H. unfold ptr_ip. rewrite H. reflexivity. Qed.

(* the bit tests of isPrivateReverse are the documented ranges: 10/8, 172.16/12,
   192.168/16, 127/8, 169.254/16, ::1, fe80::/10, fd00::/8 -- checked for every
   value of the two leading bytes (finite domain, by computation) *)
Definition bytes256 : list Z := map Z.of_nat (seq 0 256).
Lemma private_v4_ranges :
  forallb (fun a => forallb (fun b =>
    Bool.eqb (is_private_ip [a; b; 7; 9]) (private_spec [a; b; 7; 9])) bytes256) bytes256 = true.
Proof. vm_compute. reflexivity. Qed.
Lemma private_v6_ranges :
  forallb (fun a => forallb (fun b =>
    Bool.eqb (is_private_ip [a; b; 0;0;0;0;0;0;0;0;0;0;0;0;0;5]) (private_spec [a; b; 0;0;0;0;0;0;0;0;0;0;0;0;0;5])) bytes256) bytes256 = true.
Proof. vm_compute. reflexivity. Qed.
