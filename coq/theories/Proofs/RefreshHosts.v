(* Proofs/RefreshHosts.v -- the catch-up theorem instantiated with the hosts-file parser: once the
   hosts file on disk stays the same, a lookup made one refresh interval after the last lookup that
   preceded the change (and every later one) answers from exactly the table of that file -- which
   C18_hosts_addr / C18_hosts_name characterise as the associations written in it. *)
From NX Require Import Bytes Discovery Refresh RefreshFacts.
Open Scope Z_scope.

Section Hosts.
  Variable canon : bytes -> option bytes.   (* parseLiteralIP, environment *)
  Notation parse := (read_hosts canon).
  Notation T := hosts_tbl.

  Theorem hosts_lookup_after_change s evs1 tc f pre e post name addr :
    r_expires s <= tc + refresh_interval -> (forall e1, In e1 evs1 -> fst e1 <= tc) ->
    honest T parse (run T parse s evs1) f ->
    (forall e2, In e2 (pre ++ e :: post) -> snd e2 = Some f) ->
    tc + refresh_interval <= fst e ->
    let s' := run T parse s (evs1 ++ pre ++ e :: post) in
    hosts_lookup_host (r_tbl s') name = hosts_lookup_host (parse (s_content f)) name /\
    hosts_lookup_addr (r_tbl s') addr = hosts_lookup_addr (parse (s_content f)) addr.
  Proof.
    intros H1 H2 H3 H4 H5 s'.
    destruct (table_catches_up T parse s evs1 tc f pre e post H1 H2 H3 H4 H5) as [_ [Ht _]].
    unfold s'. rewrite Ht. split; reflexivity.
  Qed.

  (* a daemon that starts on a file and never sees it change answers from that file from its first lookup on *)
  Theorem hosts_first_lookup t f e post name :
    (forall e2, In e2 (e :: post) -> snd e2 = Some f) -> 0 <= fst e ->
    hosts_lookup_host (r_tbl (run T parse (mkRS t None 0) (e :: post))) name = hosts_lookup_host (parse (s_content f)) name.
  Proof.
    intros Hf He.
    destruct (table_catches_up T parse (mkRS t None 0) [] (- refresh_interval) f [] e post) as [_ [Ht _]].
    - cbn. lia.
    - intros e1 [].
    - apply fresh_honest.
    - exact Hf.
    - lia.
    - cbn [app] in Ht. rewrite Ht. reflexivity.
  Qed.
End Hosts.
