(* Proofs/StartFacts.v -- with room for one error in the channel, start never reports success for a
   listener that failed before it returned; with the unbuffered channel it can. *)
From NX Require Import Bytes Start.

Definition sinv (s : sstate) : Prop :=
  false_success s = false /\
  (* a failure that is handed over and not yet consumed by a waiting starter sits in the buffer *)
  (sc s = CHanded -> late s = false -> (sp s = PSpawned \/ sp s = PWaiting) -> sbuf s = true).

Lemma sinv_init : sinv sinit.
Proof. split; [reflexivity|]. intros H. discriminate. Qed.

Lemma sinv_step s l s' : sinv s -> sstep true s l = Some s' -> sinv s'.
Proof.
  intros [H1 H2] Hs. destruct s as [p c b lt]. unfold sinv, false_success in *. cbn [sp sc sbuf late] in *.
  destruct l, p, c, b, lt; cbn in Hs; try discriminate; injection Hs as <-; cbn;
    (split; [try reflexivity; try assumption|]); try (intros; try discriminate; try reflexivity; intuition congruence).
  all: try (exfalso; assert (false = true) by (apply H2; try reflexivity; intuition congruence); discriminate).
Qed.

Theorem start_reports_failure ls s : srun true sinit ls = Some s -> false_success s = false.
Proof.
  assert (G : forall ls s0, sinv s0 -> srun true s0 ls = Some s -> sinv s).
  { induction ls0 as [|l r IH]; intros s0 Hi Hr; cbn [srun] in Hr; [injection Hr as <-; exact Hi|].
    destruct (sstep true s0 l) as [s1|] eqn:E; [|discriminate]. apply (IH s1); [apply (sinv_step _ _ _ Hi E)|exact Hr]. }
  intros H. apply (G ls sinit sinv_init H).
Qed.

(* the unbuffered channel: the listener fails and runs its send statement before the starter waits *)
Example unbuffered_drops_the_error :
  exists ls s, srun false sinit ls = Some s /\ false_success s = true.
Proof. exists [ChildFail; ChildSend; ParentWait; ParentTimeout]. eexists. split; vm_compute; reflexivity. Qed.

(* non-vacuity: with the buffer the same schedule delivers the error *)
Example buffered_same_schedule :
  srun true sinit [ChildFail; ChildSend; ParentWait; ParentRecv] = Some (mkSS PGotErr CHanded false false).
Proof. reflexivity. Qed.
