(* Proofs/RouterOpenwrt.v -- C20 on OpenWrt: a whole start/stop cycle puts the owner's uci
   settings (dnsmasq port, forwarders, DHCP options) back, as dnsmasq sees them. *)
From NX Require Import Bytes Discovery ResolvConf Router ConfigFacts DiscoveryFacts RouterFacts.
From Coq Require Import ZifyBool String.
Open Scope Z_scope.

Lemma ow_phase2_effect r e r' e' :
  uci_s e = uci_c e -> ow_phase2 r e = (r', e', true) ->
  uci_s e' = uci_c e' /\ conf e' = conf e /\ l_uci (loaded e') = uci_c e' /\ l_conf (loaded e') = conf e /\
  r_savedfw r' = r_savedfw r /\ r_cache r' = r_cache r /\
  (forall k, beq_bytes k k_dhcpopt = false -> sget k (uci_s e') = sget k (uci_s e)) /\
  ((r_addedopt r' = r_addedopt r /\ sget k_dhcpopt (uci_s e') = sget k_dhcpopt (uci_s e)) \/
   (r_addedopt r' = true /\ exists ip, uci_get e k_ipaddr = Some ip /\
      sget k_dhcpopt (uci_s e') = Some (olist (sget k_dhcpopt (uci_s e)) ++ [s2b "6," ++ ip]) /\
      (match uci_get e k_dhcpopt with Some o => contains o (s2b "6," ++ ip) | None => false end) = false)).
Proof.
  intros Hsync H. unfold ow_phase2 in H. destruct (uci_get e k_ipaddr) as [ip|] eqn:Eip; [|discriminate].
  destruct (match uci_get e k_dhcpopt with Some o => contains o (s2b "6," ++ ip) | None => false end) eqn:Epr;
    injection H as <- <-; ow_proj.
  - repeat split; try reflexivity; try assumption. left. split; reflexivity.
  - repeat split; try reflexivity.
    + intros k Hk. apply sget_sset_other. exact Hk.
    + right. split; [reflexivity|]. exists ip. split; [reflexivity|]. split; [|exact Epr].
      rewrite sget_sset_same. destruct (sget k_dhcpopt (uci_s e)); reflexivity.
Qed.

Definition restore_fw (r : robj) (e : env) : env :=
  if beq_bytes (r_savedfw r) [] then e
  else uci_commit (fold_left (fun e f => uci_add_list e k_server f) (split_sp (r_savedfw r)) e).

Lemma split_sp_nonnil s : split_sp s <> [].
Proof. unfold split_sp. apply split_sp_go_nonnil. Qed.

Lemma restore_fw_effect r e :
  uci_s e = uci_c e ->
  uci_s (restore_fw r e) = uci_c (restore_fw r e) /\
  (forall k, beq_bytes k k_server = false -> sget k (uci_s (restore_fw r e)) = sget k (uci_s e)) /\
  (r_savedfw r = [] -> sget k_server (uci_s (restore_fw r e)) = sget k_server (uci_s e)) /\
  (r_savedfw r <> [] ->
   sget k_server (uci_s (restore_fw r e)) = Some (olist (sget k_server (uci_s e)) ++ split_sp (r_savedfw r))).
Proof.
  intros Hsync. unfold restore_fw. destruct (beq_bytes (r_savedfw r) []) eqn:E.
  - apply beq_bytes_eq in E. repeat split; try assumption; try reflexivity. intros H. contradiction.
  - destruct (fold_add_list_server (split_sp (r_savedfw r)) e) as (_ & _ & _ & Hk & Hs).
    cbn [uci_commit uci_s uci_c]. repeat split; try reflexivity.
    + exact Hk.
    + intros H. rewrite H in E. discriminate.
    + intros _. apply Hs. apply split_sp_nonnil.
Qed.

Lemma ow_restore_unfold r e : ow_restore r e =
  (let e2 := set_conf (restore_fw r e) None in
   if r_addedopt r then
     match uci_get e2 k_ipaddr with
     | None => (e2, false)
     | Some ip => (restart (uci_commit (uci_del_list e2 k_dhcpopt (s2b "6," ++ ip))), true)
     end
   else (restart e2, true)).
Proof. reflexivity. Qed.

Definition del_result (o : option (list bytes)) (x : bytes) : option (list bytes) :=
  match o with
  | Some l => match filter (fun y => negb (beq_bytes y x)) l with [] => None | l' => Some l' end
  | None => None
  end.

Lemma sget_uci_del_list e k v : sget k (uci_s (uci_del_list e k v)) = del_result (sget k (uci_s e)) v.
Proof.
  unfold uci_del_list, del_result. destruct (sget k (uci_s e)) as [l|] eqn:E; [|exact E].
  destruct (filter (fun x => negb (beq_bytes x v)) l) as [|a l'] eqn:Ef; cbn [uci_s set_uci_s].
  - apply sget_sdel_same.
  - apply sget_sset_same.
Qed.
Lemma sget_uci_del_list_other e k k' v : beq_bytes k' k = false -> sget k' (uci_s (uci_del_list e k v)) = sget k' (uci_s e).
Proof.
  intros H. unfold uci_del_list. destruct (sget k (uci_s e)) as [l|]; [|reflexivity].
  destruct (filter (fun x => negb (beq_bytes x v)) l); cbn [uci_s set_uci_s];
    [apply sget_sdel_other|apply sget_sset_other]; exact H.
Qed.

Lemma ow_restore_effect r e e3 :
  uci_s e = uci_c e -> ow_restore r e = (e3, true) ->
  l_conf (loaded e3) = None /\
  sget k_port (l_uci (loaded e3)) = sget k_port (uci_s e) /\
  (r_savedfw r = [] -> sget k_server (l_uci (loaded e3)) = sget k_server (uci_s e)) /\
  (r_savedfw r <> [] ->
   sget k_server (l_uci (loaded e3)) = Some (olist (sget k_server (uci_s e)) ++ split_sp (r_savedfw r))) /\
  (r_addedopt r = false -> sget k_dhcpopt (l_uci (loaded e3)) = sget k_dhcpopt (uci_s e)) /\
  (r_addedopt r = true -> exists ip, uci_get e k_ipaddr = Some ip /\
     sget k_dhcpopt (l_uci (loaded e3)) = del_result (sget k_dhcpopt (uci_s e)) (s2b "6," ++ ip)).
Proof.
  intros Hsync H. rewrite ow_restore_unfold in H. cbn zeta in H.
  destruct (restore_fw_effect r e Hsync) as (Hs1 & Hk & Hsv0 & Hsv1).
  set (e1 := restore_fw r e) in *.
  assert (Hip : uci_get (set_conf e1 None) k_ipaddr = uci_get e k_ipaddr).
  { unfold uci_get. cbn [uci_s set_conf]. rewrite (Hk k_ipaddr neq_ipaddr_server). reflexivity. }
  destruct (r_addedopt r) eqn:Eadd.
  - rewrite Hip in H. destruct (uci_get e k_ipaddr) as [ip|] eqn:Eip; [|discriminate].
    injection H as <-. cbn [loaded restart l_conf l_uci uci_commit uci_c conf].
    split; [rewrite conf_uci_del_list; reflexivity|].
    split; [rewrite (sget_uci_del_list_other _ _ _ _ neq_port_dhcpopt); cbn [uci_s set_conf]; apply Hk; exact neq_port_server|].
    split; [intros Hz; rewrite (sget_uci_del_list_other _ _ _ _ neq_server_dhcpopt); cbn [uci_s set_conf]; apply Hsv0; exact Hz|].
    split; [intros Hz; rewrite (sget_uci_del_list_other _ _ _ _ neq_server_dhcpopt); cbn [uci_s set_conf]; apply Hsv1; exact Hz|].
    split; [discriminate|]. intros _. exists ip. split; [reflexivity|].
    rewrite sget_uci_del_list. cbn [uci_s set_conf]. rewrite (Hk k_dhcpopt neq_dhcpopt_server). reflexivity.
  - injection H as <-. cbn [loaded restart l_conf l_uci uci_c set_conf conf]. rewrite <- Hs1.
    split; [reflexivity|].
    split; [apply Hk; exact neq_port_server|].
    split; [exact Hsv0|]. split; [exact Hsv1|].
    split; [intros _; apply Hk; exact neq_dhcpopt_server|discriminate].
Qed.

Lemma ow_phase1_cacheflag r e r1 e1 : ow_phase1 r e = (r1, e1) -> r_cache r1 = r_cache r.
Proof.
  intros H. unfold ow_phase1 in H.
  destruct (r_cache r) eqn:E; [destruct (uci_get e k_port) as [p|]; [destruct (beq_bytes p t_53)|]
                              |destruct (uci_get e k_server)]; injection H as <- <-; cbn; try assumption; reflexivity.
Qed.
Lemma ow_phase2_cacheflag r e r' e' ok : ow_phase2 r e = (r', e', ok) -> r_cache r' = r_cache r.
Proof.
  intros H. unfold ow_phase2 in H. destruct (uci_get e k_ipaddr) as [ip|]; [|injection H as <- <- <-; reflexivity].
  destruct (match uci_get e k_dhcpopt with Some o => contains o (s2b "6," ++ ip) | None => false end);
    injection H as <- <- <-; reflexivity.
Qed.

(* Configure + Setup on OpenWrt is one run of the two phases, whichever of the two calls runs them *)
Lemma ow_cycle_shape c e r1 e1 ls r2 e2 :
  configure (new Openwrt e) c e = (r1, e1, ls, true) -> setup r1 e1 = (r2, e2, true) ->
  exists ra ea, ow_phase1 (with_cfg (new Openwrt e) c) e = (ra, ea) /\
    ow_phase2 ra (set_conf ea (Some (unlines (dropin_lines (r_cache ra) (r_port0 ra) (r_report ra))))) = (r2, e2, true).
Proof.
  intros Hc Hs. destruct c as [rep ca]. unfold configure, new in Hc. cbn [r_fw cache] in Hc. destruct ca.
  - unfold setup_dnsmasq in Hc. cbn [r_fw with_cfg] in Hc. unfold ow_setup in Hc.
    destruct (ow_phase1 _ e) as [ra ea] eqn:E1. destruct (ow_phase2 ra _) as [[rb eb] okb] eqn:E2.
    injection Hc as <- <- <- ->. exists ra, ea. split; [reflexivity|].
    assert (Hfw : r_fw rb = Openwrt).
    { rewrite (ow_phase2_fw _ _ _ _ _ E2), (ow_phase1_fw _ _ _ _ E1). reflexivity. }
    assert (Hca : r_cache rb = true).
    { rewrite (ow_phase2_cacheflag _ _ _ _ _ E2), (ow_phase1_cacheflag _ _ _ _ E1). reflexivity. }
    unfold setup in Hs. rewrite Hfw, Hca in Hs. injection Hs as <- <-. exact E2.
  - injection Hc as <- <- <-. unfold setup in Hs. cbn [r_fw with_cfg r_cache cache] in Hs.
    unfold setup_dnsmasq in Hs. cbn [r_fw with_cfg] in Hs. unfold ow_setup in Hs.
    destruct (ow_phase1 _ e) as [ra ea] eqn:E1. exists ra, ea. split; [reflexivity|exact Hs].
Qed.

Lemma not_in_when_not_contained l x :
  trim_space (join_sp l) = join_sp l ->
  (match l with [] => false | _ => contains (trim_space (join_sp l)) x end) = false -> ~ In x l.
Proof.
  intros Ht Hc Hin. destruct l as [|y r]; [exact Hin|]. rewrite Ht in Hc.
  rewrite (in_join_contains _ _ Hin) in Hc. discriminate.
Qed.

Lemma fjoin_del_added (o : option (list bytes)) x :
  ~ In x (olist o) -> fjoin (del_result (Some (olist o ++ [x])) x) = fjoin o.
Proof.
  intros H. unfold del_result. rewrite (filter_neq_snoc _ _ H).
  destruct o as [[|y r]|]; reflexivity.
Qed.

Theorem ow_cycle_restores c e r1 e1 ls r2 e2 e3 :
  conf e = None -> uci_s e = uci_c e ->
  (forall l, sget k_dhcpopt (uci_c e) = Some l -> trim_space (join_sp l) = join_sp l) ->
  configure (new Openwrt e) c e = (r1, e1, ls, true) -> setup r1 e1 = (r2, e2, true) -> restore r2 e2 = (e3, true) ->
  c20_restored (view Openwrt (loaded e3)) (view Openwrt (current e)) = true.
Proof.
  intros Hconf Hsync Hopt Hc Hs Hr.
  pose proof (ow_cycle_fw _ _ _ _ _ _ _ _ _ Hc Hs) as Hfw.
  destruct (ow_cycle_shape _ _ _ _ _ _ _ Hc Hs) as (ra & ea & E1 & E2).
  destruct (ow_phase1_effect _ _ _ _ Hsync E1) as (Hs1 & _ & Hadd1 & _ & Hd1 & Hi1 & Hcache & Hnocache).
  set (e' := set_conf ea (Some (unlines (dropin_lines (r_cache ra) (r_port0 ra) (r_report ra))))) in *.
  assert (Hs' : uci_s e' = uci_c e') by exact Hs1.
  destruct (ow_phase2_effect _ _ _ _ Hs' E2) as (Hs2 & _ & _ & _ & Hsv2 & _ & Hk2 & Hd2).
  unfold restore in Hr. rewrite Hfw in Hr.
  destruct (ow_restore_effect _ _ _ Hs2 Hr) as (Hlc & Hp3 & Hsv0 & Hsv1 & Hd30 & Hd31).
  cbn [r_addedopt with_cfg new] in Hadd1.
  (* the three things dnsmasq reads from uci, after the cycle and before it *)
  assert (P : fport (sget k_port (l_uci (loaded e3))) = fport (sget k_port (uci_c e))).
  { rewrite Hp3, (Hk2 k_port neq_port_dhcpopt). change (uci_s e') with (uci_s ea). rewrite <- Hsync.
    destruct c as [rep [|]]; cbn [r_cache with_cfg cache] in Hcache, Hnocache.
    - destruct (Hcache eq_refl) as (_ & _ & Hp). exact Hp.
    - destruct (Hnocache eq_refl) as (Hp & _). rewrite Hp. reflexivity. }
  assert (S : fjoin (sget k_server (l_uci (loaded e3))) = fjoin (sget k_server (uci_c e))).
  { rewrite <- Hsync.
    assert (Hse : sget k_server (uci_s e2) = sget k_server (uci_s ea)) by (rewrite (Hk2 k_server neq_server_dhcpopt); reflexivity).
    destruct c as [rep [|]]; cbn [r_cache with_cfg cache] in Hcache, Hnocache.
    - destruct (Hcache eq_refl) as (Hsv & Hsf & _). cbn [r_savedfw with_cfg new] in Hsf.
      rewrite Hsv0 by (rewrite Hsv2, Hsf; reflexivity). rewrite Hse, Hsv. reflexivity.
    - destruct (Hnocache eq_refl) as (_ & [[Hsf Hj]|(Hsf & Hnone & Htr)]).
      + rewrite Hsv0 by (rewrite Hsv2; exact Hsf). rewrite Hse. exact Hj.
      + rewrite Hsv1 by (rewrite Hsv2; exact Hsf). rewrite Hse, Hnone, Hsv2. cbn [olist app].
        unfold fjoin at 1. cbn [joined]. rewrite join_split. exact Htr. }
  assert (D : fjoin (sget k_dhcpopt (l_uci (loaded e3))) = fjoin (sget k_dhcpopt (uci_c e))).
  { rewrite <- Hsync.
    assert (Hde : sget k_dhcpopt (uci_s e') = sget k_dhcpopt (uci_s e)) by exact Hd1.
    destruct Hd2 as [[Ha Hd]|(Ha & ip & Hip & Hd & Hnc)].
    - rewrite Hd30 by (rewrite Ha, Hadd1; reflexivity). rewrite Hd, Hde. reflexivity.
    - destruct (Hd31 Ha) as (ip' & Hip' & Hd3).
      assert (ip' = ip).
      { unfold uci_get in Hip', Hip. rewrite (Hk2 k_ipaddr neq_ipaddr_dhcpopt) in Hip'. rewrite Hip in Hip'.
        injection Hip' as ->. reflexivity. }
      subst ip'. rewrite Hd3, Hd, Hde. apply fjoin_del_added.
      unfold uci_get in Hnc. rewrite Hde in Hnc.
      destruct (sget k_dhcpopt (uci_s e)) as [l|] eqn:El; cbn [olist]; [|intros []].
      apply not_in_when_not_contained.
      + apply Hopt. rewrite <- Hsync. exact El.
      + destruct l; [reflexivity|exact Hnc]. }
  (* assemble the two views *)
  unfold c20_restored, beq_view, current. rewrite Hconf.
  destruct (loaded e3) as [lc lu ln]. cbn [l_conf l_uci] in *. subst lc.
  rewrite !view_openwrt_lines. cbn [v_port0 v_port v_fwd v_noresolv v_addmac v_user].
  change (match sget k_port lu with Some (x :: r) => trim_space (join_sp (x :: r)) | _ => t_53 end) with (fport (sget k_port lu)).
  change (match sget k_port (uci_c e) with Some (x :: r) => trim_space (join_sp (x :: r)) | _ => t_53 end) with (fport (sget k_port (uci_c e))).
  change (trim_space (joined (sget k_server lu))) with (fjoin (sget k_server lu)).
  change (trim_space (joined (sget k_dhcpopt lu))) with (fjoin (sget k_dhcpopt lu)).
  change (trim_space (joined (sget k_server (uci_c e)))) with (fjoin (sget k_server (uci_c e))).
  change (trim_space (joined (sget k_dhcpopt (uci_c e)))) with (fjoin (sget k_dhcpopt (uci_c e))).
  rewrite P, S, D. rewrite beq_bytes_refl, !beq_lines_refl, !Bool.eqb_reflx. reflexivity.
Qed.
