(* Proofs/ListenFacts.v -- ListenAndServe: invariant, progress, termination
   measure, sockets closed and bind error reported at return. *)
From NX Require Import Bytes Listen.
From Coq Require Import ZifyBool.
Open Scope Z_scope.

(* ---------- lists with one updated position ---------- *)
Lemma upd_length {A} i (x : A) l : length (upd i x l) = length l.
Proof. revert i; induction l as [|h t IH]; intros [|i]; cbn [upd length]; try reflexivity. rewrite IH; reflexivity. Qed.

Lemma nth_error_upd_same {A} i (x : A) l y : nth_error l i = Some y -> nth_error (upd i x l) i = Some x.
Proof. revert i; induction l as [|h t IH]; intros [|i] H; cbn in *; try discriminate; [reflexivity | apply IH; exact H]. Qed.
Lemma nth_error_upd_other {A} i j (x : A) l : i <> j -> nth_error (upd i x l) j = nth_error l j.
Proof.
  revert i j; induction l as [|h t IH]; intros [|i] [|j] H; cbn; try reflexivity; try congruence.
  apply IH. congruence.
Qed.

Definition total {A} (f : A -> nat) (l : list A) : nat := fold_right (fun t a => (f t + a)%nat) 0%nat l.
Lemma total_upd {A} (f : A -> nat) i x l y :
  nth_error l i = Some y -> (total f (upd i x l) + f y = total f l + f x)%nat.
Proof.
  revert i; induction l as [|h t IH]; intros i H.
  - destruct i; discriminate.
  - destruct i as [|i]; cbn [nth_error upd total fold_right] in *.
    + inversion H; subst. lia.
    + specialize (IH i H). unfold total in IH. lia.
Qed.

Lemma forallb_upd {A} (f : A -> bool) i x l :
  forallb f l = true -> f x = true -> forallb f (upd i x l) = true.
Proof.
  revert i; induction l as [|h t IH]; intros [|i] Hl Hx; cbn in *; try reflexivity.
  - apply andb_true_iff in Hl as [_ Ht]. rewrite Hx, Ht. reflexivity.
  - apply andb_true_iff in Hl as [Hh Ht]. rewrite Hh. apply IH; assumption.
Qed.
Lemma forallb_nth {A} (f : A -> bool) i l x : forallb f l = true -> nth_error l i = Some x -> f x = true.
Proof. intros Hl Hn. rewrite forallb_forall in Hl. apply Hl. eapply nth_error_In; exact Hn. Qed.

(* ---------- local invariant: the reachable shapes of one listener ---------- *)
Definition linvb (closed : bool) (t : lth) : bool :=
  match l_pc t, l_sock t, l_reg t with
  | LStart, SNone, false => true
  | LBound, SOpen, false => true
  | LServing, SOpen, true => negb closed
  | LServing, SClosed, true => closed
  | LHaveErr EBind, SNone, false => true
  | LHaveErr ECanceled, SNone, false => true
  | LHaveErr ECanceled, SClosed, false => closed
  | LHaveErr EClose, SClosed, true => closed
  | LSent, SNone, false => true
  | LSent, SClosed, _ => closed
  | LDone, SNone, false => true
  | LDone, SClosed, _ => closed
  | _, _, _ => false
  end.
(* before any cancellation only bind errors exist *)
Definition lerrb (pre : bool) (t : lth) : bool :=
  match l_pc t with LHaveErr e => pre || match e with EBind => true | _ => false end | _ => true end.

Definition sent (t : lth) : nat := match l_pc t with LSent | LDone => 1 | _ => 0 end.
Definition rank (t : lth) : nat :=
  match l_pc t with LStart => 5 | LBound => 4 | LServing => 3 | LHaveErr _ => 2 | LSent => 1 | LDone => 0 end.

Definition collected (n : nat) (m : mpc) : nat :=
  match m with MCollect k => k | MReturned => S n | _ => 0 end.
Definition main_sent (m : mpc) : nat := match m with MWait | MSendCtx => 0 | _ => 1 end.
Definition main_closed (m : mpc) : bool := match m with MCollect _ | MReturned => true | _ => false end.
Definition main_rank (n : nat) (m : mpc) : nat :=
  match m with MWait => n + 5 | MSendCtx => n + 4 | MClose => n + 3 | MCollect k => n + 2 - k | MReturned => 0 end.

Definition is_bind (e : lerr) : bool := match e with EBind => true | _ => false end.

Record ginv (s : gstate) : Prop := mkGinv {
  g_local : forallb (linvb (closed_flag s)) (ths s) = true;
  g_closed : closed_flag s = main_closed (mainpc s);
  g_cancel : mainpc s <> MWait -> cancelled s = true;
  g_count : (collected (length (ths s)) (mainpc s) + length (chan s) = total sent (ths s) + main_sent (mainpc s))%nat;
  g_k : forall k, mainpc s = MCollect k -> (k <= length (ths s))%nat;
  g_hist : exists pre, hist s = pre ++ chan s /\ result s = fold_left select_err pre None /\
                       length pre = collected (length (ths s)) (mainpc s);
  g_ext_pre : ext s = false -> cancelled s = false ->
              forallb is_bind (hist s) = true /\ forallb (lerrb false) (ths s) = true;
  g_ext_post : ext s = false -> cancelled s = true -> exists r, hist s = EBind :: r;
  g_sent_le : (total sent (ths s) <= length (ths s))%nat
}.

Lemma total_sent_le l : (total sent l <= length l)%nat.
Proof. induction l as [|t l IH]; cbn [total fold_right length]; [lia|]. unfold total in IH. unfold sent at 1. destruct (l_pc t); lia. Qed.

Lemma ginv_init n : ginv (ginit n).
Proof.
  constructor; cbn.
  - induction n; cbn; [reflexivity | exact IHn].
  - reflexivity.
  - congruence.
  - induction n; cbn; [reflexivity | cbn in IHn; lia].
  - intros k H; discriminate.
  - exists []. repeat split.
  - intros _ _. split; [reflexivity|]. induction n; cbn; [reflexivity | exact IHn].
  - intros _ H; discriminate.
  - apply total_sent_le.
Qed.

(* ---------- preservation ---------- *)
Lemma lerrb_mono t : lerrb false t = true -> lerrb true t = true.
Proof. unfold lerrb. destruct (l_pc t); auto. Qed.
Lemma forallb_lerrb_true l : forallb (lerrb true) l = true.
Proof. induction l as [|t l IH]; cbn; [reflexivity|]. rewrite IH. unfold lerrb. destruct (l_pc t); reflexivity. Qed.

(* a step that only rewrites thread i (globals untouched) *)
Lemma thread_step_inv s i t t' :
  ginv s -> nth_error (ths s) i = Some t ->
  linvb (closed_flag s) t' = true -> sent t' = sent t ->
  (ext s = false -> cancelled s = false -> lerrb false t' = true) ->
  ginv (set_th s i t').
Proof.
  intros [Hl Hc Hcan Hcnt Hk Hh Hpre Hpost Hle] Hn Hl' Hs Herr.
  pose proof (total_upd sent i t' (ths s) t Hn) as Ht.
  constructor; cbn [set_th ths cancelled closed_flag chan mainpc result hist ext bind_failed]; rewrite ?upd_length; try assumption.
  - apply forallb_upd; assumption.
  - lia.
  - intros He Hca. destruct (Hpre He Hca) as [H1 H2]. split; [exact H1|]. apply forallb_upd; [exact H2 | apply Herr; assumption].
  - lia.
Qed.

Ltac fin := try solve [intros; first [reflexivity | discriminate | congruence | lia | eassumption]].
Ltac thr En := match goal with
  | H : forallb (linvb _) (ths _) = true |- _ => pose proof (forallb_nth _ _ _ _ H En) as Hlt
  end.

Theorem gstep_inv s lb s' : ginv s -> gstep s lb = Some s' -> ginv s'.
Proof.
  intros Hinv Hstep. pose proof Hinv as [Hl Hc Hcan Hcnt Hk Hh Hpre Hpost Hle].
  destruct lb as [i o|i|i|i|i| |]; cbn [gstep] in Hstep.
  - (* Bind *)
    destruct (nth_error (ths s) i) as [[pc sk rg]|] eqn:En; [|discriminate].
    destruct pc; try discriminate. thr En. 
    destruct o.
    + inversion Hstep; subst. eapply thread_step_inv; try eassumption; try reflexivity.
    + inversion Hstep; subst; clear Hstep.
      assert (G : ginv (set_th s i (mkTh (LHaveErr EBind) SNone false))).
      { eapply thread_step_inv; try eassumption; try reflexivity. }
      destruct G as [Hl' Hc' Hcan' Hcnt' Hk' Hh' Hpre' Hpost' Hle']. constructor; assumption.
    + destruct (cancelled s) eqn:Eca; [|discriminate]. inversion Hstep; subst.
      eapply thread_step_inv; try eassumption; try reflexivity. intros _ H; congruence.
  - (* Register *)
    destruct (nth_error (ths s) i) as [[pc sk rg]|] eqn:En; [|discriminate].
    destruct pc; try discriminate. thr En.
    unfold linvb in Hlt; cbn [l_pc l_sock l_reg] in Hlt. destruct sk, rg; try discriminate.
    destruct (closed_flag s) eqn:Ecl; inversion Hstep; subst.
    + eapply thread_step_inv; try eassumption; try reflexivity;
        try (unfold linvb; cbn [l_pc l_sock l_reg]; rewrite ?Ecl; reflexivity).
      intros He Hca. exfalso.
      assert (mainpc s <> MWait) by (intros Hm; rewrite Hm in Hc; discriminate). rewrite Hcan in Hca by assumption. discriminate.
    + eapply thread_step_inv; try eassumption; try reflexivity;
        try (unfold linvb; cbn [l_pc l_sock l_reg]; rewrite ?Ecl; reflexivity).
  - (* ServeReturn *)
    destruct (nth_error (ths s) i) as [[pc sk rg]|] eqn:En; [|discriminate].
    destruct pc; try discriminate. destruct sk; try discriminate. thr En.
    unfold linvb in Hlt; cbn [l_pc l_sock l_reg] in Hlt. destruct rg; try discriminate.
    inversion Hstep; subst.
    eapply thread_step_inv; try eassumption; try reflexivity.
    intros He Hca. exfalso. rewrite Hc in Hlt.
    assert (mainpc s <> MWait) by (intros Hm; rewrite Hm in Hlt; discriminate). rewrite Hcan in Hca by assumption. discriminate.
  - (* Send *)
    destruct (nth_error (ths s) i) as [[pc sk rg]|] eqn:En; [|discriminate].
    destruct pc as [| | |e| |]; try discriminate. thr En. inversion Hstep; subst; clear Hstep.
    pose proof (total_upd sent i (mkTh LSent sk rg) (ths s) _ En) as Ht. cbn [sent l_pc] in Ht.
    constructor; cbn [set_th ths cancelled closed_flag chan mainpc result hist ext bind_failed]; rewrite ?upd_length; try assumption.
    + apply forallb_upd; [exact Hl|]. unfold linvb in *; cbn [l_pc l_sock l_reg] in *.
      destruct e, sk, rg; try discriminate; try reflexivity; exact Hlt.
    + rewrite app_length. cbn [length]. lia.
    + destruct Hh as (pre & H1 & H2 & H3). exists pre. rewrite H1, app_assoc. auto.
    + intros He Hca. destruct (Hpre He Hca) as [H1 H2]. split.
      * rewrite forallb_app, H1. cbn. pose proof (forallb_nth _ _ _ _ H2 En) as He'. unfold lerrb in He'; cbn in He'.
        destruct e; try discriminate; reflexivity.
      * apply forallb_upd; [exact H2 | reflexivity].
    + intros He Hca. destruct (Hpost He Hca) as [r Hr]. rewrite Hr. eexists. reflexivity.
    + pose proof (total_sent_le (upd i (mkTh LSent sk rg) (ths s))) as Hx. rewrite upd_length in Hx. exact Hx.
  - (* Cancel *)
    destruct (nth_error (ths s) i) as [[pc sk rg]|] eqn:En; [|discriminate].
    destruct pc; try discriminate. thr En. inversion Hstep; subst; clear Hstep.
    pose proof (total_upd sent i (mkTh LDone sk rg) (ths s) _ En) as Ht. cbn [sent l_pc] in Ht.
    constructor; cbn [set_th ths cancelled closed_flag chan mainpc result hist ext bind_failed]; rewrite ?upd_length; try assumption; try reflexivity.
    + apply forallb_upd; [exact Hl|]. unfold linvb in *; cbn [l_pc l_sock l_reg] in *. exact Hlt.
    + lia.
    + intros _ H; discriminate.
    + intros He _. destruct (cancelled s) eqn:Eca; [apply Hpost; [exact He | reflexivity]|].
      destruct (Hpre He eq_refl) as [H1 _].
      (* this listener has sent: the history is not empty and holds bind errors only *)
      destruct Hh as (pre & Hh1 & _ & Hh3).
      assert (Hmw : mainpc s = MWait).
      { destruct (mainpc s) eqn:Em; try reflexivity; exfalso;
          (assert (Hx : false = true) by (apply Hcan; discriminate)); discriminate Hx. }
      rewrite Hmw in *. cbn [collected main_sent] in *.
      assert (Hpos : (1 <= total sent (ths s))%nat).
      { clear -En. revert i En. induction (ths s) as [|h t IH]; intros [|i] En; cbn in *; try discriminate.
        - inversion En; subst. cbn. lia.
        - specialize (IH i En). unfold total in IH. lia. }
      destruct (hist s) as [|e r] eqn:Ehs.
      * exfalso. destruct pre; [|discriminate]. cbn in Hh1. rewrite <- Hh1 in Hcnt. cbn in Hcnt. lia.
      * cbn in H1. apply andb_true_iff in H1 as [H1 _]. destruct e; try discriminate. eexists; reflexivity.
    + pose proof (total_sent_le (upd i (mkTh LDone sk rg) (ths s))) as Hx. rewrite upd_length in Hx. exact Hx.
  - (* MainStep *)
    destruct (mainpc s) as [| | |k|] eqn:Em; try discriminate.
    + destruct (cancelled s) eqn:Eca; [|discriminate]. inversion Hstep; subst; clear Hstep.
      constructor; cbn [ths cancelled closed_flag chan mainpc result hist ext bind_failed]; try assumption; fin.
    + inversion Hstep; subst; clear Hstep.
      assert (Hca : cancelled s = true) by (apply Hcan; discriminate).
      constructor; cbn [ths cancelled closed_flag chan mainpc result hist ext bind_failed]; try assumption; fin.
      all: try (cbn [collected main_sent] in *; rewrite app_length; cbn [length]; lia).
      all: try (destruct Hh as (pre & H1 & H2 & H3); exists pre; rewrite H1, app_assoc; cbn [collected] in *; auto; fail).
      all: try (intros He _; destruct (Hpost He Hca) as [r Hr]; rewrite Hr; eexists; reflexivity).
    + inversion Hstep; subst; clear Hstep.
      assert (Hca : cancelled s = true) by (apply Hcan; discriminate).
      assert (Hcl : closed_flag s = false) by (rewrite Hc; reflexivity).
      assert (Hts : total sent (map close_th (ths s)) = total sent (ths s)).
      { clear. induction (ths s) as [|t l IH]; cbn [map total fold_right]; [reflexivity|]. unfold total in IH. rewrite IH. f_equal.
        unfold sent, close_th. destruct (l_reg t); reflexivity. }
      assert (Hloc : forallb (linvb true) (map close_th (ths s)) = true).
      { rewrite Hcl in Hl. clear -Hl. induction (ths s) as [|t l IH]; cbn [map forallb] in *; [reflexivity|].
        apply andb_true_iff in Hl as [Ht Hl]. rewrite (IH Hl), andb_true_r.
        unfold linvb, close_th in *. destruct t as [pc sk rg]; cbn [l_pc l_sock l_reg] in *.
        destruct pc as [| | |e| |], sk, rg; try discriminate; try reflexivity; destruct e; try discriminate; reflexivity. }
      pose proof (total_sent_le (map close_th (ths s))) as Hx. rewrite map_length in Hx.
      constructor; cbn [ths cancelled closed_flag chan mainpc result hist ext bind_failed]; unfold close_registered;
        rewrite ?map_length, ?Hts; try assumption; fin.
      all: try (intros k H; inversion H; subst; lia).
      all: try (cbn [collected main_sent] in *; lia).
    + destruct (chan s) as [|e rest] eqn:Ech; [discriminate|]. inversion Hstep; subst; clear Hstep.
      assert (Hca : cancelled s = true) by (apply Hcan; discriminate).
      cbn [collected main_sent length] in Hcnt.
      assert (Hkle : (S k <= S (length (ths s)))%nat) by lia.
      destruct Hh as (pre & H1 & H2 & H3). cbn [collected] in H3.
      assert (Hhist : exists pre0, hist s = pre0 ++ rest /\ select_err (result s) e = fold_left select_err pre0 None /\ length pre0 = S k).
      { exists (pre ++ [e]). rewrite H1, <- app_assoc. split; [reflexivity|]. split.
        - rewrite fold_left_app. cbn. rewrite H2. reflexivity.
        - rewrite app_length. cbn [length]. lia. }
      cbn [Nat.eqb]. destruct (Nat.eqb k (length (ths s))) eqn:Ek.
      * apply Nat.eqb_eq in Ek.
        constructor; cbn [ths cancelled closed_flag chan mainpc result hist ext bind_failed]; try assumption; fin.
        all: try (cbn [collected main_sent]; lia).
        all: try (destruct Hhist as (p0 & A & B & C); exists p0; cbn [collected]; repeat split; try assumption; lia).
      * apply Nat.eqb_neq in Ek.
        constructor; cbn [ths cancelled closed_flag chan mainpc result hist ext bind_failed]; try assumption; fin.
        all: try (cbn [collected main_sent]; lia).
        all: try (intros k0 H; inversion H; subst; lia).
        all: try (destruct Hhist as (p0 & A & B & C); exists p0; cbn [collected]; repeat split; assumption).
  - (* ExtCancel *)
    destruct (cancelled s) eqn:Eca; [discriminate|]. inversion Hstep; subst; clear Hstep.
    constructor; cbn [ths cancelled closed_flag chan mainpc result hist ext bind_failed]; try assumption; try reflexivity.
    + intros H; discriminate.
    + intros H; discriminate.
Qed.

Theorem greach_inv n s : greach n s -> ginv s.
Proof.
  intros [ls Hr]. revert s Hr. generalize (ginv_init n). generalize (ginit n).
  induction ls as [|l ls IH]; intros s0 H0 s Hr; cbn [grun] in Hr.
  - inversion Hr; subst; exact H0.
  - destruct (gstep s0 l) as [s1|] eqn:E; [|discriminate]. eapply IH; [eapply gstep_inv; eassumption | exact Hr].
Qed.

(* ---------- what holds when ListenAndServe returns ---------- *)
Lemma total_sent_all l : total sent l = length l -> forallb (fun t => match l_pc t with LSent | LDone => true | _ => false end) l = true.
Proof.
  induction l as [|t l IH]; cbn [total fold_right length forallb]; [reflexivity|].
  pose proof (total_sent_le l) as Hle. unfold total in *. unfold sent at 1.
  destruct (l_pc t); intros H; try lia; cbn [andb]; apply IH; lia.
Qed.

Theorem returned_all_closed s :
  ginv s -> mainpc s = MReturned -> forallb (fun t => match l_sock t with SOpen => false | _ => true end) (ths s) = true.
Proof.
  intros [Hl Hc Hcan Hcnt Hk Hh Hpre Hpost Hle] Hm. rewrite Hm in *. cbn [collected main_sent main_closed] in *.
  assert (Hall : total sent (ths s) = length (ths s)) by lia.
  apply total_sent_all in Hall.
  rewrite forallb_forall in *. intros t Ht. specialize (Hl t Ht). specialize (Hall t Ht).
  unfold linvb in Hl. destruct t as [pc sk rg]; cbn [l_pc l_sock l_reg] in *.
  destruct pc; try discriminate; destruct sk; try reflexivity; destruct rg; discriminate.
Qed.

(* the returned error: first non-Canceled value sent, Canceled if there is none *)
Lemma fold_select_bind r acc : acc = Some EBind -> fold_left select_err r acc = Some EBind.
Proof. revert acc; induction r as [|e r IH]; intros acc H; cbn; [exact H|]. apply IH. rewrite H. reflexivity. Qed.

Lemma fold_select_some r x : fold_left select_err r (Some x) <> None.
Proof.
  revert x; induction r as [|e r IH]; intros x; cbn [fold_left]; [discriminate|].
  destruct x; cbn [select_err]; apply IH.
Qed.

Theorem returned_error s :
  ginv s -> mainpc s = MReturned ->
  result s <> None /\ (ext s = false -> result s = Some EBind).
Proof.
  intros [Hl Hc Hcan Hcnt Hk Hh Hpre Hpost Hle] Hm. rewrite Hm in *. cbn [collected main_sent] in *.
  assert (Hch : chan s = []) by (destruct (chan s); [reflexivity | cbn in Hcnt; lia]).
  destruct Hh as (pre & H1 & H2 & H3). rewrite Hch, app_nil_r in H1. subst pre.
  assert (Hcanc : cancelled s = true) by (apply Hcan; discriminate).
  split.
  - rewrite H2. destruct (hist s) as [|e r]; [cbn in H3; lia|]. cbn [fold_left select_err].
    apply fold_select_some.
  - intros He. destruct (Hpost He Hcanc) as [r Hr]. rewrite H2, Hr. cbn [fold_left select_err].
    apply fold_select_bind. reflexivity.
Qed.

(* ---------- progress: once cancelled, something can always move until main returns ---------- *)
Lemma exists_unsent l : (total sent l < length l)%nat ->
  exists i t, nth_error l i = Some t /\ sent t = 0%nat.
Proof.
  induction l as [|t l IH]; cbn [total fold_right length]; [lia|]. intros H.
  destruct (sent t) eqn:Es.
  - exists 0%nat, t. split; [reflexivity | exact Es].
  - unfold total in IH. pose proof (total_sent_le l). assert (Hs1 : sent t = 1%nat) by (unfold sent in *; destruct (l_pc t); lia).
    destruct IH as (i & t' & Hn & Hs); [unfold total in *; lia|]. exists (S i), t'. split; assumption.
Qed.

Theorem progress s :
  ginv s -> cancelled s = true -> mainpc s <> MReturned -> exists lb s', gstep s lb = Some s'.
Proof.
  intros [Hl Hc Hcan Hcnt Hk Hh Hpre Hpost Hle] Hca Hm.
  destruct (mainpc s) as [| | |k|] eqn:Em; try congruence.
  - exists MainStep. cbn [gstep]. rewrite Em, Hca. eauto.
  - exists MainStep. cbn [gstep]. rewrite Em. eauto.
  - exists MainStep. cbn [gstep]. rewrite Em. eauto.
  - destruct (chan s) as [|e rest] eqn:Ech.
    + (* nothing to collect yet: some listener has not sent, and it can move *)
      cbn [collected main_sent length main_closed] in *. specialize (Hk k eq_refl).
      destruct (exists_unsent (ths s)) as (i & t & Hn & Hs); [lia|].
      pose proof (forallb_nth _ _ _ _ Hl Hn) as Hlt. rewrite Hc in Hlt.
      destruct t as [pc sk rg]. unfold linvb in Hlt; unfold sent in Hs; cbn [l_pc l_sock l_reg] in *.
      destruct pc as [| | |e| |]; try discriminate.
      * exists (Bind i BindOk). cbn [gstep]. rewrite Hn. eauto.
      * exists (Register i). cbn [gstep]. rewrite Hn, Hc. eauto.
      * destruct sk, rg; try discriminate. exists (ServeReturn i). cbn [gstep]. rewrite Hn. eauto.
      * exists (Send i). cbn [gstep]. rewrite Hn. eauto.
    + exists MainStep. cbn [gstep]. rewrite Em, Ech. eauto.
Qed.

(* ---------- termination: every step decreases a natural-number measure ---------- *)
Definition gmeasure (s : gstate) : nat :=
  (total rank (ths s) + main_rank (length (ths s)) (mainpc s) + (if cancelled s then 0 else 1))%nat.

Lemma total_rank_close l : total rank (map close_th l) = total rank l.
Proof.
  induction l as [|t l IH]; cbn [map total fold_right]; [reflexivity|]. unfold total in IH. rewrite IH. f_equal.
  unfold rank, close_th. destruct (l_reg t); reflexivity.
Qed.

Theorem step_decreases s lb s' : ginv s -> gstep s lb = Some s' -> (gmeasure s' < gmeasure s)%nat.
Proof.
  intros [Hl Hc Hcan Hcnt Hk Hh Hpre Hpost Hle] Hstep. unfold gmeasure.
  destruct lb as [i o|i|i|i|i| |]; cbn [gstep] in Hstep.
  - destruct (nth_error (ths s) i) as [[pc sk rg]|] eqn:En; [|discriminate]. destruct pc; try discriminate.
    destruct o; [| |destruct (cancelled s); [|discriminate]]; inversion Hstep; subst;
      cbn [set_th ths cancelled mainpc]; rewrite upd_length;
      match goal with |- context [total rank (upd i ?t' _)] => pose proof (total_upd rank i t' (ths s) _ En) as Ht end;
      cbn [rank l_pc] in Ht; destruct (cancelled s); lia.
  - destruct (nth_error (ths s) i) as [[pc sk rg]|] eqn:En; [|discriminate]. destruct pc; try discriminate.
    destruct (closed_flag s); inversion Hstep; subst;
      cbn [set_th ths cancelled mainpc]; rewrite upd_length;
      match goal with |- context [total rank (upd i ?t' _)] => pose proof (total_upd rank i t' (ths s) _ En) as Ht end;
      cbn [rank l_pc] in Ht; destruct (cancelled s); lia.
  - destruct (nth_error (ths s) i) as [[pc sk rg]|] eqn:En; [|discriminate]. destruct pc; try discriminate.
    destruct sk; try discriminate. inversion Hstep; subst.
    cbn [set_th ths cancelled mainpc]; rewrite upd_length.
    match goal with |- context [total rank (upd i ?t' _)] => pose proof (total_upd rank i t' (ths s) _ En) as Ht end.
    cbn [rank l_pc] in Ht; destruct (cancelled s); lia.
  - destruct (nth_error (ths s) i) as [[pc sk rg]|] eqn:En; [|discriminate]. destruct pc; try discriminate.
    inversion Hstep; subst. cbn [set_th ths cancelled mainpc]; rewrite upd_length.
    match goal with |- context [total rank (upd i ?t' _)] => pose proof (total_upd rank i t' (ths s) _ En) as Ht end.
    cbn [rank l_pc] in Ht; destruct (cancelled s); lia.
  - destruct (nth_error (ths s) i) as [[pc sk rg]|] eqn:En; [|discriminate]. destruct pc; try discriminate.
    inversion Hstep; subst. cbn [set_th ths cancelled mainpc]; rewrite upd_length.
    match goal with |- context [total rank (upd i ?t' _)] => pose proof (total_upd rank i t' (ths s) _ En) as Ht end.
    cbn [rank l_pc] in Ht; destruct (cancelled s); lia.
  - destruct (mainpc s) as [| | |k|] eqn:Em; try discriminate.
    + destruct (cancelled s) eqn:Eca; [|discriminate]. inversion Hstep; subst. cbn [ths cancelled mainpc main_rank]. rewrite ?Eca. lia.
    + inversion Hstep; subst. cbn [ths cancelled mainpc main_rank]. destruct (cancelled s); lia.
    + inversion Hstep; subst. cbn [ths cancelled mainpc main_rank]. unfold close_registered. rewrite map_length, total_rank_close.
      destruct (cancelled s); lia.
    + destruct (chan s) as [|e rest]; [discriminate|]. inversion Hstep; subst. cbn [ths cancelled mainpc].
      specialize (Hk k eq_refl). cbn [Nat.eqb]. destruct (Nat.eqb k (length (ths s))) eqn:Ek; cbn [main_rank].
      * destruct (cancelled s); lia.
      * apply Nat.eqb_neq in Ek. destruct (cancelled s); lia.
  - destruct (cancelled s) eqn:Eca; [discriminate|]. inversion Hstep; subst. cbn [ths cancelled mainpc]. lia.
Qed.
