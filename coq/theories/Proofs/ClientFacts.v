(* Proofs/ClientFacts.v -- client metadata: the device id has five characters, the
   model reveals the first three MAC bytes only, emitted names are valid header
   values, nothing is sent with reporting off. *)
From NX Require Import Bytes ClientInfo.
From Coq Require Import ZifyBool.
Open Scope Z_scope.

Lemma base32_go_length_le fuel n acc : (length (base32_go fuel n acc) <= fuel + length acc)%nat.
Proof.
  revert n acc; induction fuel as [|f IH]; intros n acc; cbn [base32_go]; [lia|].
  destruct (n <? 32); cbn [length]; [lia|]. specialize (IH (n / 32) (digit32 (n mod 32) :: acc)). cbn [length] in IH. lia.
Qed.

(* the id always has exactly five characters: the buffer behind the digits is at
   least 13 bytes long (capacity of the Go slice) *)
Theorem short_id_length conf dev : length (short_id conf dev) = 5%nat.
Proof.
  unfold short_id. rewrite map_length, firstn_length.
  set (buf0 := conf ++ dev). set (digits := base32 (xxhash64 buf0)).
  assert (Hd : (length digits <= 14)%nat).
  { unfold digits, base32. pose proof (base32_go_length_le 14 (xxhash64 buf0) []). cbn [length] in H. lia. }
  rewrite app_length, skipn_length, app_length, repeat_length.
  destruct (Nat.le_gt_cases 5 (length digits)); lia.
Qed.

(* it is a function of the profile and the device bytes only (by construction);
   the model string depends on the first three MAC bytes only *)
Lemma mac_string_prefix a b c r r' :
  firstn 8 (mac_string (a :: b :: c :: r)) = firstn 8 (mac_string (a :: b :: c :: r')).
Proof. destruct r, r'; reflexivity. Qed.

Theorem model_vendor_only mac mac' : firstn 3 mac = firstn 3 mac' -> (3 <= length mac)%nat -> (3 <= length mac')%nat ->
  firstn 8 (mac_string mac) = firstn 8 (mac_string mac').
Proof.
  intros H H1 H2. destruct mac as [|a [|b [|c r]]]; cbn [length] in H1; try lia.
  destruct mac' as [|a' [|b' [|c' r']]]; cbn [length] in H2; try lia.
  cbn [firstn] in H. inversion H; subst. apply mac_string_prefix.
Qed.

(* a MAC shorter than three bytes gives no model at all *)
Lemma mac_string_len mac : len (mac_string mac) = Z.max 0 (3 * len mac - 1).
Proof.
  induction mac as [|a r IH]; [reflexivity|]. destruct r as [|b r'].
  - reflexivity.
  - change (mac_string (a :: b :: r')) with (hexdig (a / 16) :: hexdig (a mod 16) :: 58 :: mac_string (b :: r')).
    unfold len in *. cbn [length] in *. lia.
Qed.

(* what is emitted as X-Device-Name is always a valid header value, so the request
   is never rejected because of a discovered name *)
Theorem name_header_valid ci v : In (3, v) (device_headers (Some ci)) -> valid_header_value v = true.
Proof.
  unfold device_headers. intros H. repeat (apply in_app_or in H; destruct H as [H|H]).
  - destruct (ci_id ci); cbn in H; [contradiction|]. destruct H as [H|[]]; discriminate.
  - destruct (ci_ip ci); cbn in H; [contradiction|]. destruct H as [H|[]]; discriminate.
  - destruct (ci_model ci); cbn in H; [contradiction|]. destruct H as [H|[]]; discriminate.
  - destruct (ci_name ci) as [|x n] eqn:En; [contradiction|].
    destruct (valid_header_value (x :: n)) eqn:Ev; [|contradiction].
    destruct H as [H|[]]. inversion H; subst. exact Ev.
Qed.

Theorem reporting_off_no_headers : device_headers None = [].
Proof. reflexivity. Qed.

(* the full MAC never appears: the only MAC-derived fields are the id (a hash) and
   the model, which is "mac:" followed by 8 characters *)
Theorem model_is_short profile ipt ipr m na nm :
  len (ci_model (lan_client_info profile ipt ipr (Some m) na nm)) <= 12.
Proof.
  unfold lan_client_info; cbn [ci_model]. destruct (8 <=? len (mac_string m)); [|cbn; lia].
  unfold len. rewrite app_length, firstn_length. cbn [length str_mac_prefix]. lia.
Qed.
