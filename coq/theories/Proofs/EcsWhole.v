(* Proofs/EcsWhole.v -- C13 for a whole OPT record: after the option loop of query.parse, every
   address-carrying ECS option of the record is inert (code 0xFFFF, data all zero) in the payload
   handed to the upstream, and no byte outside those options has changed -- for any number of
   options in any order, given only that they lie one after the other inside the payload. *)
From NX Require Import Bytes Wire Reply Query ReplyFacts WireFacts QueryFacts.
From Coq Require Import ZifyBool.
Open Scope Z_scope.

Lemma okb_set_nth i x l : okb l -> 0 <= x < 256 -> okb (set_nth i x l).
Proof.
  unfold okb. revert i. induction l as [|h t IH]; intros i Hl Hx; [destruct i; constructor|].
  inversion Hl; subst. destruct i; cbn [set_nth]; constructor; auto; lia.
Qed.
Lemma okb_zero_range p from to i : okb p -> okb (zero_range p from to i).
Proof.
  unfold okb. revert i. induction p as [|b r IH]; intros i H; cbn [zero_range]; [constructor|].
  inversion H; subst. constructor; [destruct ((from <=? i) && (i <? to)); lia|apply IH; assumption].
Qed.
Lemma nutter_okb payload dataoff p' : okb payload -> nutter payload dataoff = Ok p' -> okb p'.
Proof.
  intros Hok. unfold nutter.
  destruct ((dataoff - 4 <? 0) || (dataoff - 4 + 4 >=? len payload)); [intros E; injection E as <-; exact Hok|].
  destruct (nth_error payload (Z.to_nat (dataoff - 4 + 3))) as [size|]; [|discriminate].
  destruct (_ >? _); intros E; injection E as <-; [exact Hok|].
  apply okb_set_nth; [apply okb_set_nth; [apply okb_zero_range; exact Hok|lia]|lia].
Qed.

(* the options lie one after the other: 4-byte header, then the data whose length byte is in place *)
Fixpoint seq_ok (p : bytes) (lo : Z) (os : list option_) : Prop :=
  match os with
  | [] => True
  | o :: r =>
    lo + 4 <= o_off o /\ o_off o + len (o_data o) <= len p /\
    (len (o_data o) < 256 -> nth (Z.to_nat (o_off o - 1)) p 0 = len (o_data o)) /\
    seq_ok p (o_off o + len (o_data o)) r
  end.

Definition scrubbed (p : bytes) (o : option_) : Prop :=
  nth (Z.to_nat (o_off o - 4)) p 0 = 255 /\ nth (Z.to_nat (o_off o - 3)) p 0 = 255 /\
  forall j, o_off o <= Z.of_nat j < o_off o + len (o_data o) -> nth j p 0 = 0.

Definition outside (os : list option_) (j : nat) : Prop :=
  forall o, In o os -> is_addr_ecs o = true -> Z.of_nat j < o_off o - 4 \/ o_off o + len (o_data o) <= Z.of_nat j.

Lemma seq_ok_lower p : forall os lo, seq_ok p lo os -> forall o, In o os -> lo + 4 <= o_off o.
Proof.
  induction os as [|a r IH]; intros lo H o Hin; [destruct Hin|].
  cbn [seq_ok] in H. destruct H as (H1 & H3 & H4 & H5). destruct Hin as [<-|Hin]; [exact H1|].
  specialize (IH _ H5 o Hin). pose proof (len_nonneg (o_data a)). lia.
Qed.

(* moving to a payload with the same length and the same bytes from lo on keeps the layout *)
Lemma seq_ok_transfer p p' lo os :
  len p' = len p -> (forall j, lo <= Z.of_nat j -> nth j p' 0 = nth j p 0) ->
  seq_ok p lo os -> seq_ok p' lo os.
Proof.
  revert lo. induction os as [|o r IH]; intros lo Hl Hb H; [exact I|]. cbn [seq_ok] in *.
  destruct H as (H1 & H3 & H4 & H5). rewrite Hl. split; [exact H1|]. split; [exact H3|]. split.
  - intros Hs. rewrite Hb; [exact (H4 Hs)|]. lia.
  - apply IH; [exact Hl| |exact H5]. intros j Hj. apply Hb. pose proof (len_nonneg (o_data o)). lia.
Qed.

Lemma is_addr_ecs_shape o : is_addr_ecs o = true ->
  o_code o = 8 /\ 8 <= len (o_data o) /\ exists a fam r, o_data o = a :: fam :: r /\ (fam = 1 \/ fam = 2).
Proof.
  unfold is_addr_ecs. intros H. apply andb_prop in H as [H H3]. apply andb_prop in H as [H1 H2].
  split; [lia|]. split; [lia|]. destruct (o_data o) as [|a [|fam r]]; try discriminate.
  exists a, fam, r. split; [reflexivity|lia].
Qed.

Theorem apply_opts_whole os : forall q q' lo,
  okb (q_payload q) -> 0 <= lo -> seq_ok (q_payload q) lo os ->
  (forall o, In o os -> is_addr_ecs o = true -> len (o_data o) < 256) ->
  apply_opts os q = Ok q' ->
  (forall o, In o os -> is_addr_ecs o = true -> scrubbed (q_payload q') o) /\
  (forall j, outside os j -> nth j (q_payload q') 0 = nth j (q_payload q) 0) /\
  (forall j, Z.of_nat j < lo -> nth j (q_payload q') 0 = nth j (q_payload q) 0).
Proof.
  induction os as [|o r IH]; intros q q' lo Hok Hlo Hseq Hshort Ha.
  - cbn [apply_opts] in Ha. injection Ha as <-. split; [intros o []|]. split; intros; reflexivity.
  - cbn [seq_ok] in Hseq. destruct Hseq as (H1 & H3 & H4 & H5).
    pose proof (len_nonneg (o_data o)) as Hdn.
    assert (Hshort' : forall o', In o' r -> is_addr_ecs o' = true -> len (o_data o') < 256) by (intros o' Hi; apply Hshort; right; exact Hi).
    (* the cases of the loop body *)
    assert (Hcases : (is_addr_ecs o = false /\ exists q1, q_payload q1 = q_payload q /\ apply_opts r q1 = Ok q') \/
                     (is_addr_ecs o = true /\ exists pl q1, nutter (q_payload q) (o_off o) = Ok pl /\ q_payload q1 = pl /\ apply_opts r q1 = Ok q')).
    { cbn [apply_opts] in Ha. unfold is_addr_ecs.
      destruct (o_code o =? 65001) eqn:Em.
      - left. split; [replace (o_code o =? 8) with false by lia; reflexivity|]. eexists. split; [|exact Ha]. reflexivity.
      - destruct (o_code o =? 8) eqn:E8; [|left; split; [reflexivity|]; exists q; split; [reflexivity|exact Ha]].
        destruct (len (o_data o) <? 8) eqn:El.
        + left. split; [replace (8 <=? len (o_data o)) with false by lia; reflexivity|]. exists q. split; [reflexivity|exact Ha].
        + replace (8 <=? len (o_data o)) with true by lia. cbn [andb].
          destruct (o_data o) as [|a [|fam [|plen rest]]] eqn:Ed; try discriminate.
          destruct (fam =? 1) eqn:E1.
          * right. split; [reflexivity|]. destruct (nutter (q_payload q) (o_off o)) as [pl| | |] eqn:En; cbn [bind] in Ha; try discriminate.
            exists pl. eexists. split; [reflexivity|]. split; [|exact Ha]. reflexivity.
          * destruct (fam =? 2) eqn:E2.
            -- right. split; [reflexivity|]. destruct (nutter (q_payload q) (o_off o)) as [pl| | |] eqn:En; cbn [bind] in Ha; try discriminate.
               exists pl. eexists. split; [reflexivity|]. split; [|exact Ha]. reflexivity.
            -- left. split; [reflexivity|]. exists q. split; [reflexivity|exact Ha]. }
    destruct Hcases as [(Hna & q1 & Hp1 & Ha1)|(Hyes & pl & q1 & Hn & Hp1 & Ha1)].
    + (* not an address-carrying ECS option: the payload goes on unchanged *)
      destruct (IH q1 q' (o_off o + len (o_data o))) as (IH1 & IH2 & IH3); [rewrite Hp1; exact Hok|lia|rewrite Hp1; exact H5|exact Hshort'|exact Ha1|].
      rewrite Hp1 in *. split; [|split].
      * intros o' [<-|Hin] He; [congruence|apply IH1; assumption].
      * intros j Hout. apply IH2. intros o' Hin He. apply Hout; [right; exact Hin|exact He].
      * intros j Hj. apply IH3. lia.
    + (* rewritten in place *)
      destruct (is_addr_ecs_shape o Hyes) as (_ & H8 & _).
      assert (H2 : o_off o < len (q_payload q)) by lia.
      assert (H4' : nth (Z.to_nat (o_off o - 1)) (q_payload q) 0 = len (o_data o)) by (apply H4; apply Hshort; [left; reflexivity|exact Hyes]).
      clear H4. rename H4' into H4.
      pose proof (nutter_len _ _ _ Hn) as Hlen.
      pose proof (nutter_okb _ _ _ Hok Hn) as Hok'.
      destruct (nutter_inert (q_payload q) (o_off o)) as (pl' & Hn' & Hs1 & Hs2 & _ & _ & Hs3); [lia|lia|rewrite H4; lia|].
      rewrite Hn in Hn'. injection Hn' as <-. rewrite H4 in Hs3.
      assert (Hout : forall j d, Z.of_nat j < o_off o - 4 \/ o_off o + len (o_data o) <= Z.of_nat j -> nth j pl d = nth j (q_payload q) d).
      { intros j d Hj. apply (nutter_outside _ _ _ _ _ Hok Hn). rewrite H4. exact Hj. }
      destruct (IH q1 q' (o_off o + len (o_data o))) as (IH1 & IH2 & IH3).
      { rewrite Hp1. exact Hok'. } { lia. }
      { rewrite Hp1. apply (seq_ok_transfer (q_payload q)); [exact Hlen| |exact H5]. intros j Hj. apply Hout. right. exact Hj. }
      { exact Hshort'. }
      { exact Ha1. }
      rewrite Hp1 in *. split; [|split].
      * intros o' [<-|Hin] He.
        -- (* this option: later rewrites stay above it *)
           unfold scrubbed. rewrite !IH3 by lia. split; [exact Hs1|]. split; [exact Hs2|].
           intros j Hj. rewrite IH3 by lia. apply Hs3. exact Hj.
        -- apply IH1; assumption.
      * intros j Hj. rewrite IH2; [apply Hout; apply Hj; [left; reflexivity|exact Hyes]|].
        intros o' Hin He. apply Hj; [right; exact Hin|exact He].
      * intros j Hj. rewrite IH3 by lia. apply Hout. left. lia.
Qed.
