(* Proofs/SvcFacts.v -- the life-cycle specification is coherent: in every state a
   well-formed history reaches, a serving service and a foreign occupant exclude each
   other; a reported success always comes with the address held, a reported failure never. *)
From NX Require Import Svc.
From Coq Require Import List Bool.
Import ListNotations.

Definition svc_inv (s : svc_st) : Prop := sv_serving s = true -> sv_occupied s = false.

Lemma svc_step_inv s o : svc_inv s -> svc_wf s [o] = true -> svc_inv (fst (svc_step s o)).
Proof.
  unfold svc_inv. destruct s as [sv oc], o; destruct sv, oc; cbn; intros H W E; try reflexivity; try discriminate;
    try (apply H; reflexivity).
Qed.

Theorem svc_run_inv : forall ops s, svc_inv s -> svc_wf s ops = true -> svc_inv (fst (svc_run s ops)).
Proof.
  induction ops as [|o r IH]; intros s H W; cbn [svc_run]; [exact H|].
  cbn [svc_wf] in W. apply andb_true_iff in W. destruct W as [W1 W2].
  pose proof (svc_step_inv s o H) as Hs. cbn [svc_wf] in Hs. rewrite W1 in Hs. specialize (Hs eq_refl).
  destruct (svc_step s o) as [s1 out] eqn:E. cbn [fst] in *.
  specialize (IH s1 Hs W2). destruct (svc_run s1 r) as [s2 outs]. cbn [fst] in *. exact IH.
Qed.

(* success is reported exactly when the address ends up held -- for a start *)
Theorem svc_start_honest : forall s o ok held, (o = SvStart \/ o = SvRestart) ->
  snd (svc_step s o) = Some (ok, held) -> ok = held /\ (ok = true <-> sv_occupied s = false).
Proof.
  intros s o ok held [-> | ->]; cbn; destruct (sv_occupied s); cbn; intros [= <- <-]; split; try reflexivity; split; congruence.
Qed.

(* the history of the seeded change C16g: occupied, start, start again, freed, start, stop *)
Example svc_history :
  snd (svc_run svc0 [SvOccupy; SvStart; SvStart; SvFree; SvStart; SvStop]) =
    [(false, false); (false, false); (true, true); (true, false)] /\
  svc_wf svc0 [SvOccupy; SvStart; SvStart; SvFree; SvStart; SvStop] = true.
Proof. split; reflexivity. Qed.
